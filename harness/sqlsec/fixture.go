package main

// Shared C14 fixture: an in-process arc node (vfix) whose query handler is fronted by
// a token-injecting middleware and a RECORDING RBAC checker, plus a kernel-level
// (inotify) monitor of every file opened/read below the storage root.

import (
	"bytes"
	"encoding/binary"
	"encoding/json"
	"fmt"
	"io"
	"math"
	"net/http/httptest"
	"os"
	"path/filepath"
	"sort"
	"strings"
	"sync"
	"syscall"
	"unsafe"

	"github.com/gofiber/fiber/v2"

	"github.com/basekick-labs/arc/internal/auth"
	"github.com/basekick-labs/arc/internal/zzverif/vfix"
)

// ---------- recording RBAC checker ----------

const allowedDB = "db1"

// ask is one permission question put to the checker and the answer it gave.
type ask struct {
	DB      string `json:"db"`
	M       string `json:"m"`
	Perm    string `json:"perm"`
	Granted bool   `json:"granted"`
}

// recorder implements api.RBACChecker with the policy "the caller may read database
// db1 (every measurement) and nothing else"; it logs every question.
type recorder struct {
	mu      sync.Mutex
	log     []ask
	allowed string // database the caller may read; "" = allowedDB (only the cross-caller family changes it)
}

func (r *recorder) IsRBACEnabled() bool { return true }

func (r *recorder) decide(req *auth.PermissionCheckRequest) *auth.PermissionCheckResult {
	r.mu.Lock()
	adb := r.allowed
	r.mu.Unlock()
	if adb == "" {
		adb = allowedDB
	}
	ok := req != nil && req.TokenInfo != nil && req.Database == adb && req.Permission == "read"
	r.mu.Lock()
	if req != nil {
		// the handler's strings may alias the request buffer (fasthttp): copy them
		r.log = append(r.log, ask{DB: strings.Clone(req.Database), M: strings.Clone(req.Measurement), Perm: strings.Clone(req.Permission), Granted: ok})
	}
	r.mu.Unlock()
	if ok {
		return &auth.PermissionCheckResult{Allowed: true, Source: "rbac"}
	}
	return &auth.PermissionCheckResult{Allowed: false, Source: "denied", Reason: "verif policy: only db1 is readable"}
}

func (r *recorder) CheckPermission(req *auth.PermissionCheckRequest) *auth.PermissionCheckResult {
	return r.decide(req)
}

func (r *recorder) CheckPermissionsBatch(reqs []*auth.PermissionCheckRequest) []*auth.PermissionCheckResult {
	out := make([]*auth.PermissionCheckResult, len(reqs))
	for i, q := range reqs {
		out[i] = r.decide(q)
	}
	return out
}

func (r *recorder) take() []ask {
	r.mu.Lock()
	defer r.mu.Unlock()
	l := r.log
	r.log = nil
	return l
}

// ---------- inotify monitor ----------

// fsmon watches every directory below root with IN_OPEN|IN_ACCESS. Directories are
// static after setup (the node is quiesced and nothing ingests afterwards).
type fsmon struct {
	fd  int
	wd  map[int32]string
	buf []byte
}

func newFsmon(root string) (*fsmon, error) {
	fd, err := syscall.InotifyInit1(syscall.IN_NONBLOCK | syscall.IN_CLOEXEC)
	if err != nil {
		return nil, fmt.Errorf("inotify_init1: %w", err)
	}
	m := &fsmon{fd: fd, wd: map[int32]string{}, buf: make([]byte, 1<<16)}
	err = filepath.Walk(root, func(p string, info os.FileInfo, err error) error {
		if err != nil {
			return err
		}
		if !info.IsDir() {
			return nil
		}
		wd, err := syscall.InotifyAddWatch(fd, p, syscall.IN_OPEN|syscall.IN_ACCESS)
		if err != nil {
			return fmt.Errorf("inotify_add_watch %s: %w", p, err)
		}
		m.wd[int32(wd)] = p
		return nil
	})
	if err != nil {
		syscall.Close(fd)
		return nil, err
	}
	return m, nil
}

func (m *fsmon) close() { syscall.Close(m.fd) }

// drain returns the regular files (absolute paths) that were opened or read since the
// previous drain, with the OR of their event masks, and whether the kernel queue
// overflowed (events lost).
func (m *fsmon) drain() (map[string]uint32, bool) {
	out := map[string]uint32{}
	overflow := false
	for {
		n, err := syscall.Read(m.fd, m.buf)
		if n <= 0 || err != nil {
			break
		}
		off := 0
		for off+syscall.SizeofInotifyEvent <= n {
			ev := (*syscall.InotifyEvent)(unsafe.Pointer(&m.buf[off]))
			nameLen := int(ev.Len)
			name := ""
			if nameLen > 0 {
				raw := m.buf[off+syscall.SizeofInotifyEvent : off+syscall.SizeofInotifyEvent+nameLen]
				name = string(bytes.TrimRight(raw, "\x00"))
			}
			off += syscall.SizeofInotifyEvent + nameLen
			if ev.Mask&syscall.IN_Q_OVERFLOW != 0 {
				overflow = true
				continue
			}
			if ev.Mask&syscall.IN_ISDIR != 0 || name == "" {
				continue // directory listings are not file reads
			}
			dir, ok := m.wd[ev.Wd]
			if !ok {
				continue
			}
			out[filepath.Join(dir, name)] |= ev.Mask & (syscall.IN_OPEN | syscall.IN_ACCESS)
		}
	}
	return out, overflow
}

// ---------- planted data ----------

type canary struct {
	DB, M string
	Text  string // as it would appear in a JSON/msgpack/arrow body
	bin   [][]byte
}

func floatCanary(db, m string, f float64) canary {
	c := canary{DB: db, M: m, Text: fmt.Sprintf("%v", f)}
	var be, le [8]byte
	binary.BigEndian.PutUint64(be[:], math.Float64bits(f))
	binary.LittleEndian.PutUint64(le[:], math.Float64bits(f))
	c.bin = [][]byte{[]byte(c.Text), be[:], le[:]}
	return c
}

func textCanary(db, m, s string) canary {
	return canary{DB: db, M: m, Text: s, bin: [][]byte{[]byte(s)}}
}

// canaries appear only in data (or names) of databases the caller may not read, and
// never in any generated request.
var canaries = []canary{
	textCanary("db2", "secret", "CANARY_DB2_7f3a"),
	textCanary("db2", "secret", "CANARY_NOTE_19aa"),
	floatCanary("db2", "secret", 424242.125),
	textCanary("secret", "keys", "CANARY_SEC_c41d"),
	floatCanary("secret", "keys", 535353.375),
	textCanary("default", "cpu", "CANARY_DEF_e802"),
	floatCanary("default", "cpu", 646464.625),
	textCanary("db2", "zq9canarym", "zq9canarym"), // a measurement NAME only listings can reveal
	textCanary("db2", "zq9canarym", "CANARY_M3_5d0e"),
}

const (
	hour0 = 1709287200 // 2024-03-01T10:00:00Z
	hour1 = 1709290800 // 2024-03-01T11:00:00Z
)

type planted struct {
	db   string
	body string
	rows int64
}

func plantedData() []planted {
	lp := func(m, host string, v float64, note string) string {
		var sb strings.Builder
		for i, ts := range []int64{hour0 + 5, hour0 + 65, hour0 + 125, hour1 + 5, hour1 + 65, hour1 + 125} {
			fmt.Fprintf(&sb, "%s,host=%s,region=r%d value=%v,note=\"%s\",n=%di %d\n", m, host, i%2, v+float64(i), note, i, ts)
		}
		return sb.String()
	}
	return []planted{
		{"db1", lp("cpu", "alpha", 1.5, "plain note"), 6},
		{"db1", lp("mem", "beta", 20.25, "other note"), 6},
		{"db2", lp("secret", "CANARY_DB2_7f3a", 424242.125-0, "CANARY_NOTE_19aa"), 6},
		{"db2", lp("zq9canarym", "CANARY_M3_5d0e", 3, "CANARY_M3_5d0e"), 6},
		{"secret", lp("keys", "CANARY_SEC_c41d", 535353.375, "k"), 6},
		{"default", lp("cpu", "CANARY_DEF_e802", 646464.625, "d"), 6},
	}
}

// ---------- rig ----------

type rig struct {
	n     *vfix.Node
	app   *fiber.App // query routes behind the token middleware (the restricted caller)
	rec   *recorder
	mon   *fsmon
	root  string
	rel   string               // root relative to the process working directory
	files map[string][2]string // every stored file -> (database, measurement)
	one   map[[2]string]string // one concrete file per pair
}

func newRig() (*rig, error) {
	rec := &recorder{}
	n, err := vfix.NewNode(vfix.Options{WithQuery: true, RBAC: rec, QueryTimeoutSec: 60})
	if err != nil {
		return nil, err
	}
	r := &rig{n: n, rec: rec, root: n.Root, files: map[string][2]string{}, one: map[[2]string]string{}}
	var rows int64
	for _, p := range plantedData() {
		code, body, _ := n.Do("POST", "/write?db="+p.db+"&precision=s", nil, []byte(p.body))
		if code < 200 || code > 299 {
			n.Close()
			return nil, fmt.Errorf("planting %s: status %d %s", p.db, code, body)
		}
		rows += p.rows
	}
	if !n.Quiesce(rows) {
		n.Close()
		return nil, errQuiesce
	}
	filepath.Walk(r.root, func(p string, info os.FileInfo, err error) error {
		if err != nil || info.IsDir() {
			return nil
		}
		rel, _ := filepath.Rel(r.root, p)
		parts := strings.Split(filepath.ToSlash(rel), "/")
		if len(parts) >= 3 {
			pair := [2]string{parts[0], parts[1]}
			r.files[p] = pair
			if _, ok := r.one[pair]; !ok {
				r.one[pair] = p
			}
		}
		return nil
	})
	cwd, _ := os.Getwd()
	r.rel, _ = filepath.Rel(cwd, r.root)

	// The restricted caller: same handler object, own Fiber app so that the middleware
	// that authenticates the caller (sets the token info the RBAC gate looks for) runs
	// before the routes, as auth middleware does in cmd/arc.
	r.app = fiber.New(fiber.Config{BodyLimit: 256 << 20, DisableStartupMessage: true})
	tok := &auth.TokenInfo{ID: 7, Name: "verif-reader", Permissions: []string{"read"}, Enabled: true}
	r.app.Use(func(c *fiber.Ctx) error {
		c.Locals("token_info", tok)
		return c.Next()
	})
	n.Query.RegisterRoutes(r.app)

	r.mon, err = newFsmon(r.root)
	if err != nil {
		n.Close()
		return nil, err
	}
	return r, nil
}

var errQuiesce = fmt.Errorf("quiesce watchdog fired")

func (r *rig) close() {
	if r.mon != nil {
		r.mon.close()
	}
	r.n.Close()
}

// request is one HTTP request of the workload. {ROOT} / {REL} in Path and SQL stand
// for the node's storage root (absolute / relative to the working directory).
type request struct {
	Method string            `json:"method"`
	Path   string            `json:"path"`
	Header map[string]string `json:"header,omitempty"`
	SQL    string            `json:"sql,omitempty"`
}

func (r *rig) subst(s string) string {
	s = strings.ReplaceAll(s, "{ROOT}", r.root)
	s = strings.ReplaceAll(s, "{REL}", r.rel)
	for pair, f := range r.one {
		s = strings.ReplaceAll(s, "{FILE:"+pair[0]+"/"+pair[1]+"}", f)
	}
	return s
}

type outcome struct {
	Status   int
	Body     []byte
	Asked    []ask
	Opened   map[string]uint32
	LatePrev map[string]uint32 // events that arrived between the previous request and this one
	Overflow bool
}

func doApp(app *fiber.App, method, url string, hdr map[string]string, body []byte) (int, []byte) {
	req := httptest.NewRequest(method, url, bytes.NewReader(body))
	for k, v := range hdr {
		req.Header.Set(k, v)
	}
	resp, err := app.Test(req, 120000)
	if err != nil {
		return -1, []byte(err.Error())
	}
	b, _ := io.ReadAll(resp.Body)
	return resp.StatusCode, b
}

// run sends one request as the restricted caller and returns what the monitors saw.
func (r *rig) run(q request) outcome {
	var o outcome
	var ov bool
	o.LatePrev, ov = r.mon.drain()
	r.rec.take()
	hdr := map[string]string{}
	for k, v := range q.Header {
		hdr[k] = v
	}
	var body []byte
	if q.Method == "POST" {
		body, _ = json.Marshal(map[string]string{"sql": r.subst(q.SQL)})
		hdr["Content-Type"] = "application/json"
	}
	o.Status, o.Body = doApp(r.app, q.Method, r.subst(q.Path), hdr, body)
	o.Asked = r.rec.take()
	var ov2 bool
	o.Opened, ov2 = r.mon.drain()
	o.Overflow = ov || ov2
	return o
}

// runSettled is run followed by a trivial request, so that any straggling event of
// the first is collected too (used when a single request must be judged on its own).
func (r *rig) runSettled(q request) outcome {
	o := r.run(q)
	f := r.run(request{Method: "POST", Path: "/api/v1/query", SQL: "SELECT 1"})
	for k, v := range f.LatePrev {
		o.Opened[k] |= v
	}
	for k, v := range f.Opened {
		o.Opened[k] |= v
	}
	return o
}

// finding is one refuting observation about a request.
type finding struct {
	Kind string `json:"kind"` // "file" | "canary"
	What string `json:"what"` // db/measurement/…file relative to the root, or the canary text
	Pair string `json:"pair"`
}

func (r *rig) judge(o *outcome) []finding {
	granted := map[string]bool{}
	for _, a := range o.Asked {
		if a.Granted && a.Perm == "read" {
			granted[a.DB+"/"+a.M] = true
		}
	}
	var fs []finding
	var opened []string
	for f := range o.Opened {
		opened = append(opened, f)
	}
	sort.Strings(opened)
	for _, f := range opened {
		rel, _ := filepath.Rel(r.root, f)
		parts := strings.Split(filepath.ToSlash(rel), "/")
		if len(parts) < 3 {
			fs = append(fs, finding{Kind: "file", What: rel, Pair: "?"})
			continue
		}
		if granted[parts[0]+"/"+parts[1]] || granted[parts[0]+"/*"] {
			continue
		}
		fs = append(fs, finding{Kind: "file", What: rel, Pair: parts[0] + "/" + parts[1]})
	}
	for _, c := range canaries {
		if granted[c.DB+"/"+c.M] || granted[c.DB+"/*"] {
			continue
		}
		for _, b := range c.bin {
			if bytes.Contains(o.Body, b) {
				fs = append(fs, finding{Kind: "canary", What: c.Text, Pair: c.DB + "/" + c.M})
				break
			}
		}
	}
	return fs
}

// selfTest proves that both detectors work on this rig before any verdict is based on
// them: an unrestricted read of db2 must be seen by inotify and contain the canary;
// the restricted caller reading db1.cpu (twice: caches) must open only db1/cpu files.
func (r *rig) selfTest() error {
	r.mon.drain()
	body, _ := json.Marshal(map[string]string{"sql": "SELECT * FROM db2.secret"})
	code, b := doApp(r.n.App, "POST", "/api/v1/query", map[string]string{"Content-Type": "application/json"}, body)
	ev, _ := r.mon.drain()
	if code != 200 || !bytes.Contains(b, []byte("CANARY_DB2_7f3a")) || !bytes.Contains(b, []byte("424242.125")) {
		return fmt.Errorf("positive control: unrestricted read of db2.secret did not return the canaries (status %d): %.300s", code, b)
	}
	n := 0
	for f := range ev {
		if r.files[f] == [2]string{"db2", "secret"} {
			n++
		}
	}
	if n == 0 {
		return fmt.Errorf("positive control: inotify did not report the db2/secret files an unrestricted query read (events: %v)", ev)
	}
	for i := 0; i < 3; i++ {
		o := r.runSettled(request{Method: "POST", Path: "/api/v1/query", SQL: "SELECT * FROM db1.cpu"})
		if o.Status != 200 || len(o.Opened) == 0 {
			return fmt.Errorf("control %d: restricted read of db1.cpu: status %d, %d files opened: %.300s", i, o.Status, len(o.Opened), o.Body)
		}
		if fs := r.judge(&o); len(fs) > 0 {
			return fmt.Errorf("control %d: restricted read of db1.cpu judged refuting: %v", i, fs)
		}
		if len(o.Asked) != 1 || !o.Asked[0].Granted {
			return fmt.Errorf("control %d: recorder saw %v", i, o.Asked)
		}
	}
	o := r.runSettled(request{Method: "POST", Path: "/api/v1/query", SQL: "SELECT * FROM db2.secret"})
	if o.Status != 403 || len(o.Opened) != 0 {
		return fmt.Errorf("control: restricted read of db2.secret: status %d, opened %v", o.Status, o.Opened)
	}
	return nil
}

// urlq percent-encodes everything but unreserved characters.
func urlq(s string) string {
	var sb strings.Builder
	for _, b := range []byte(s) {
		if (b >= 'a' && b <= 'z') || (b >= 'A' && b <= 'Z') || (b >= '0' && b <= '9') || b == '_' || b == '-' || b == '.' {
			sb.WriteByte(b)
		} else {
			fmt.Fprintf(&sb, "%%%02X", b)
		}
	}
	return sb.String()
}
