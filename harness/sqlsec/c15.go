package main

// C15: SQL normalisation agrees with DuckDB's lexer and is reversible.
//
// Differential runtime monitor: generator ground truth (confirmed by DuckDB's own
// parser through json_serialize_sql on a private reference engine) against what
// arc's exported masking API delimits, against Unmask(Mask(s)), and against the
// accept/reject behaviour of api.ValidateSQLRequest on keyword probes (the only
// exported window onto comment stripping).

import (
	"encoding/json"
	"fmt"
	"regexp"
	"sort"
	"strings"
	"sync"

	"github.com/basekick-labs/arc/internal/api"
	sqlutil "github.com/basekick-labs/arc/internal/sql"
	"github.com/basekick-labs/arc/internal/zzverif/vfix"
	"github.com/basekick-labs/arc/internal/zzverif/vlib"
)

// ---------- DuckDB confirmation ----------

type duckItem struct {
	Class string
	Str   *string // VARCHAR constant value
	Names []string
}

// duckItems parses s with DuckDB and returns the top-level select list.
func duckItems(ref *vfix.Ref, s string) ([]duckItem, error) {
	var out string
	if err := ref.DB.QueryRow("SELECT json_serialize_sql(?::VARCHAR)::VARCHAR", s).Scan(&out); err != nil {
		return nil, err
	}
	var r struct {
		Error      bool   `json:"error"`
		Message    string `json:"error_message"`
		Statements []struct {
			Node struct {
				SelectList []struct {
					Class       string   `json:"class"`
					ColumnNames []string `json:"column_names"`
					Value       struct {
						Type struct {
							ID string `json:"id"`
						} `json:"type"`
						Value json.RawMessage `json:"value"`
					} `json:"value"`
				} `json:"select_list"`
			} `json:"node"`
		} `json:"statements"`
	}
	if err := json.Unmarshal([]byte(out), &r); err != nil {
		return nil, err
	}
	if r.Error || len(r.Statements) != 1 {
		return nil, fmt.Errorf("duckdb: %s", r.Message)
	}
	var items []duckItem
	for _, it := range r.Statements[0].Node.SelectList {
		d := duckItem{Class: it.Class, Names: it.ColumnNames}
		if it.Class == "CONSTANT" && it.Value.Type.ID == "VARCHAR" {
			var v string
			if json.Unmarshal(it.Value.Value, &v) == nil {
				d.Str = &v
			}
		}
		items = append(items, d)
	}
	return items, nil
}

// confirmed reports whether DuckDB sees exactly the generator's select-list items.
func confirmed(ref *vfix.Ref, st *stmt, s string) bool {
	items, err := duckItems(ref, s)
	if err != nil {
		return false
	}
	var want []tok
	for _, t := range st.Toks {
		if t.Item {
			want = append(want, t)
		}
	}
	if len(items) != len(want) {
		return false
	}
	for i, w := range want {
		it := items[i]
		switch w.Kind {
		case "lit":
			if it.Str == nil || *it.Str != w.Val {
				return false
			}
		case "qid":
			if it.Class != "COLUMN_REF" || len(it.Names) != 1 || it.Names[0] != w.Val {
				return false
			}
		case "bare":
			if it.Class != "COLUMN_REF" || len(it.Names) != 1 || !strings.EqualFold(it.Names[0], w.Val) {
				return false
			}
		case "num":
			if it.Class == "COLUMN_REF" || it.Str != nil {
				return false
			}
		case "param":
			if it.Class != "PARAMETER" {
				return false
			}
		case "fn":
			if it.Class != "FUNCTION" {
				return false
			}
		}
	}
	return true
}

// ---------- arc observation ----------

type piece struct {
	Start, End int
	Ident      bool
}

var phRe = regexp.MustCompile(`^__(?:STR|IDENT)_\d+__`)

// arcPieces aligns s with MaskStringLiterals' output and returns the spans arc masked.
// A non-empty string reports an inconsistency of the API itself.
func arcPieces(s string) ([]piece, string, []sqlutil.StringMask, string) {
	masked, masks := sqlutil.MaskStringLiterals(s, sqlutil.HasQuotes(s))
	by := map[string]sqlutil.StringMask{}
	for _, m := range masks {
		by[m.Placeholder] = m
	}
	var ps []piece
	i, j := 0, 0
	for j < len(masked) {
		if masked[j] == '_' && (i >= len(s) || s[i] != '_') {
			ph := phRe.FindString(masked[j:])
			m, ok := by[ph]
			if ph == "" || !ok {
				return ps, masked, masks, "masked text contains an unknown placeholder"
			}
			if !strings.HasPrefix(s[i:], m.Original) {
				return ps, masked, masks, "mask table entry does not match the source text at its position"
			}
			ps = append(ps, piece{i, i + len(m.Original), m.Identifier})
			i += len(m.Original)
			j += len(ph)
			continue
		}
		if i >= len(s) || s[i] != masked[j] {
			return ps, masked, masks, "masking changed a character outside a masked piece"
		}
		i++
		j++
	}
	if i != len(s) {
		return ps, masked, masks, "masking dropped trailing text"
	}
	return ps, masked, masks, ""
}

// spanDiff compares arc's pieces with the ground truth and names the first
// disagreement by the lexical construct at which it starts ("" = agreement).
func spanDiff(st *stmt, s string) string {
	ps, _, _, bad := arcPieces(s)
	if bad != "" {
		return "mask API inconsistent: " + bad
	}
	var truth []*tok
	var cmts []*tok
	for i := range st.Toks {
		t := &st.Toks[i]
		switch t.Kind {
		case "lit", "qid":
			truth = append(truth, t)
		case "cmt":
			cmts = append(cmts, t)
		}
	}
	inCmt := func(a, b int) *tok {
		for _, c := range cmts {
			if a >= c.Start && b <= c.End {
				return c
			}
		}
		return nil
	}
	startCmt := func(a int) *tok {
		for _, c := range cmts {
			if a >= c.Start && a < c.End {
				return c
			}
		}
		return nil
	}
	ti := 0
	for _, p := range ps {
		if inCmt(p.Start, p.End) != nil {
			continue // invisible once the comment is stripped
		}
		if c := startCmt(p.Start); c != nil {
			return "quote or dollar-quote marker inside a comment pairs with later text (masking runs before comment stripping)"
		}
		if ti < len(truth) && truth[ti].Start < p.Start {
			return missedClass(truth[ti])
		}
		if ti >= len(truth) || p.Start < truth[ti].Start {
			return "text outside any literal, identifier or comment is masked starting at " + classifyChar(s, p.Start)
		}
		t := truth[ti]
		if p.Start == t.Start && p.End == t.End {
			if p.Ident != (t.Kind == "qid") {
				return "quoted identifier / string literal class confused for " + t.Kind
			}
			ti++
			continue
		}
		return endClass(t, p, s)
	}
	if ti < len(truth) {
		return missedClass(truth[ti])
	}
	return ""
}

func classifyChar(s string, i int) string {
	switch s[i] {
	case '$':
		return "a dollar sign"
	case 'e', 'E':
		return "an E prefix"
	case '\'':
		return "a single quote"
	case '"':
		return "a double quote"
	}
	return "other text"
}

func missedClass(t *tok) string {
	if t.Kind == "lit" && t.Style == "dtag" && !isASCII(t.Tag) {
		return "dollar-quoted literal whose tag has a non-ASCII letter is not recognised"
	}
	return t.Kind + " (" + t.Style + ") not masked"
}

func isASCII(s string) bool {
	for i := 0; i < len(s); i++ {
		if s[i] >= 0x80 {
			return false
		}
	}
	return true
}

// endClass names why arc ended a literal elsewhere than DuckDB.
func endClass(t *tok, p piece, s string) string {
	body := t.Text
	switch {
	case t.Kind == "qid" && strings.HasSuffix(body, `\"`), t.Kind == "lit" && t.Style == "sq" && strings.HasSuffix(body, `\'`):
		return "backslash before closing quote treated as escape in ordinary literal / quoted identifier"
	case t.Kind == "lit" && t.Style == "E":
		return "E-string escapes not consumed left to right (escaped backslash or escaped quote next to another quote)"
	case t.Kind == "lit" && (t.Style == "dollar" || t.Style == "dtag"):
		return "dollar-quoted literal delimited differently"
	}
	if p.End < t.End {
		return t.Kind + " (" + t.Style + ") ended early"
	}
	return t.Kind + " (" + t.Style + ") ended late"
}

// roundTrip checks Unmask(Mask(s)) == s and the FROM-keyword mask round trip.
func roundTrip(s string) string {
	masked, masks := sqlutil.MaskStringLiterals(s, sqlutil.HasQuotes(s))
	if got := sqlutil.UnmaskStringLiterals(masked, masks); got != s {
		if lookRe.MatchString(s) {
			return "unmask substitutes a user-written placeholder look-alike (__STR_n__ / __IDENT_n__): Unmask(Mask(s)) != s"
		}
		return "Unmask(Mask(s)) != s without any placeholder look-alike in s"
	}
	fm, fmasks := sqlutil.MaskFromKeywordsInFunctionBodies(masked)
	if got := sqlutil.UnmaskFromKeywordsInFunctionBodies(fm, fmasks); got != masked {
		if strings.Contains(s, "__FROM_MASK_") {
			return "FROM-keyword unmask rewrites a user-written __FROM_MASK_n__ look-alike to FROM"
		}
		return "FROM-keyword mask/unmask round trip differs without any look-alike"
	}
	return ""
}

var lookRe = regexp.MustCompile(`__(?:STR|IDENT)_\d+__`)

// validateProbe compares ValidateSQLRequest's verdict with where DuckDB sees the
// denylisted keyword ("" = agreement); the second result is the rejection message.
func validateProbe(st *stmt, s string) (string, string) {
	if st.Marker == "" {
		return "", ""
	}
	err := api.ValidateSQLRequest(s)
	if st.Where == "outside" {
		if err == nil {
			return "denylisted keyword outside every literal and comment is not seen by validation", ""
		}
		return "", err.Error()
	}
	if err != nil {
		return "text inside a " + map[string]string{"lit": "string literal", "qid": "quoted identifier", "cmt": "comment"}[st.Where] + " makes validation reject the statement", err.Error()
	}
	return "", ""
}

// probeCause names the lexical construct behind a validation disagreement: the
// masking disagreement if there is one, else the comment construct or the
// identifier-quote stripping of the I/O-denylist normalisation.
func probeCause(st *stmt, s string) string {
	if d := spanDiff(st, s); d != "" {
		return d
	}
	_, msg := validateProbe(st, s)
	hasQid := false
	for _, t := range st.Toks {
		if t.Kind == "qid" {
			hasQid = true
		}
	}
	seen := strings.HasPrefix(msg, "Dangerous SQL operation")
	hasNested := false
	for _, t := range st.Toks {
		if t.Kind == "cmt" && t.Style == "nested" {
			hasNested = true
		}
	}
	hasCR := false
	for _, t := range st.Toks {
		if t.Kind == "cmt" && t.Style == "linecr" {
			hasCR = true
		}
	}
	const crSig = "carriage return ends a line comment for DuckDB but not for arc (comment stripping runs on to the next line feed)"
	if hasCR && !hasNested && (st.Where == "outside" || st.Where == "cmt") {
		return crSig
	}
	if st.Where != "outside" && !seen && hasNested {
		return "nested block comment: text after the inner */ is treated as code"
	}
	if st.Where != "outside" && !seen && hasQid {
		return "identifier quotes stripped before masking (I/O-denylist normalisation): text inside a quoted identifier is scanned as code"
	}
	if hasNested && st.Where != "outside" {
		// is a nested block comment what makes validation reject? The same statement with
		// the nested comments replaced by a blank must then be accepted.
		st2 := stmt{Marker: st.Marker, Where: st.Where, Toks: append([]tok(nil), st.Toks...)}
		for i := range st2.Toks {
			if st2.Toks[i].Kind == "cmt" && st2.Toks[i].Style == "nested" && !strings.Contains(st2.Toks[i].Text, st.Marker) {
				st2.Toks[i].Text = " "
			}
		}
		if api.ValidateSQLRequest(st2.text()) == nil {
			return "nested block comment: text after the inner */ is treated as code"
		}
	}
	if st.Where == "cmt" && seen {
		for _, t := range st.Toks {
			if t.Kind == "cmt" && t.Style == "nested" && strings.Contains(t.Text, st.Marker) {
				return "nested block comment: text after the inner */ is treated as code"
			}
		}
	}
	if st.Where == "cmt" {
		for _, t := range st.Toks {
			if t.Kind == "cmt" && strings.Contains(t.Text, st.Marker) {
				return "comment stripping: text inside a " + commentNames[t.Style] + " is seen as code"
			}
		}
	}
	if st.Where == "outside" {
		if hasNested {
			return "nested block comment: text after the inner */ is treated as code"
		}
		return "comment stripping removes code that follows a comment: " + commentClass(st)
	}
	if hasCR && !hasNested {
		// is the carriage-return comment what makes validation reject? The same statement
		// with those comments ended by a line feed must then be accepted.
		st2 := stmt{Marker: st.Marker, Where: st.Where, Toks: append([]tok(nil), st.Toks...)}
		for i := range st2.Toks {
			if st2.Toks[i].Kind == "cmt" && st2.Toks[i].Style == "linecr" {
				st2.Toks[i].Style = "line"
				if i+1 < len(st2.Toks) && st2.Toks[i+1].Kind == "ws" && st2.Toks[i+1].Text == "\r" {
					st2.Toks[i+1].Text = "\n"
				}
			}
		}
		if api.ValidateSQLRequest(st2.text()) == nil {
			return crSig
		}
	}
	return "validation rejects for a reason unrelated to masking or comments: " + strings.SplitN(msg, ":", 2)[0]
}

var commentNames = map[string]string{"line": "line comment", "linecr": "line comment terminated by carriage return", "lineeof": "line comment at end of input", "block": "block comment", "nested": "nested block comment"}

// commentClass names the comment construct a comment-level disagreement hinges on
// when masking itself agrees with DuckDB.
func commentClass(st *stmt) string {
	kinds := map[string]bool{}
	for _, t := range st.Toks {
		if t.Kind == "cmt" {
			kinds[t.Style] = true
		}
	}
	var ks []string
	for k := range kinds {
		ks = append(ks, commentNames[k])
	}
	sort.Strings(ks)
	if len(ks) == 0 {
		return "no comment present"
	}
	return strings.Join(ks, " + ")
}

// ---------- shrinking ----------

// shrink removes tokens / atoms while pred stays true (pred includes the DuckDB
// confirmation, so the reduced statement is still one DuckDB reads as the generator says).
func shrink(st stmt, pred func(*stmt) bool) stmt {
	cur := st
	try := func(c stmt) bool {
		if pred(&c) {
			cur = c
			return true
		}
		return false
	}
	cloneToks := func(ts []tok) []tok {
		out := make([]tok, len(ts))
		copy(out, ts)
		for i := range out {
			out[i].Atoms = append([]string(nil), ts[i].Atoms...)
		}
		return out
	}
	for pass, changed := 0, true; changed && pass < 8; pass++ {
		changed = false
		// drop one item (with a neighbouring comma) or one gap token
		for i := 2; i < len(cur.Toks); i++ {
			t := cur.Toks[i]
			c := cur
			if cur.Marker != "" && strings.Contains(t.Text, cur.Marker) {
				continue
			}
			switch {
			case t.Kind == "ws" || t.Kind == "cmt":
				c.Toks = append(cloneToks(cur.Toks[:i]), cloneToks(cur.Toks[i+1:])...)
			case t.Item && t.Kind != "fn":
				// remove the item and the comma that follows (or precedes) it
				j := i + 1
				for j < len(cur.Toks) && (cur.Toks[j].Kind == "ws" || cur.Toks[j].Kind == "cmt") {
					j++
				}
				if j < len(cur.Toks) && cur.Toks[j].Text == "," {
					c.Toks = append(cloneToks(cur.Toks[:i]), cloneToks(cur.Toks[j+1:])...)
				} else {
					k := i - 1
					for k >= 2 && (cur.Toks[k].Kind == "ws" || cur.Toks[k].Kind == "cmt") {
						k--
					}
					if k >= 2 && cur.Toks[k].Text == "," {
						c.Toks = append(cloneToks(cur.Toks[:k]), cloneToks(cur.Toks[i+1:])...)
					} else {
						continue
					}
				}
				if t.Kind == "bare" && t.Text == cur.Marker {
					continue
				}
			default:
				continue
			}
			if try(c) {
				changed = true
				i--
			}
		}
		// drop one atom of a token
		for i := range cur.Toks {
			for a := 0; a < len(cur.Toks[i].Atoms); a++ {
				if cur.Marker != "" && strings.Contains(cur.Toks[i].Atoms[a], cur.Marker) {
					continue
				}
				c := cur
				c.Toks = cloneToks(cur.Toks)
				at := c.Toks[i].Atoms
				c.Toks[i].Atoms = append(at[:a:a], at[a+1:]...)
				if !c.Toks[i].build() {
					continue
				}
				if try(c) {
					changed = true
					a--
				}
			}
		}
	}
	return cur
}

// ---------- the check ----------

type c15Detail struct {
	Check    string   `json:"check"`
	SQL      string   `json:"sql"`
	Minimal  string   `json:"minimal_sql"`
	Masked   string   `json:"arc_masked_minimal"`
	Pieces   []string `json:"arc_masked_pieces_minimal"`
	Truth    []tok    `json:"ground_truth_tokens_minimal"`
	Marker   string   `json:"marker,omitempty"`
	Where    string   `json:"marker_where,omitempty"`
	Validate string   `json:"validate_result_minimal,omitempty"`
}

func describe(check string, orig string, m *stmt) c15Detail {
	ms := m.text()
	_, masked, masks, _ := arcPieces(ms)
	d := c15Detail{Check: check, SQL: orig, Minimal: ms, Masked: masked, Marker: m.Marker, Where: m.Where}
	for _, k := range masks {
		d.Pieces = append(d.Pieces, k.Original)
	}
	for _, t := range m.Toks {
		if t.Kind == "lit" || t.Kind == "qid" || t.Kind == "cmt" {
			d.Truth = append(d.Truth, t)
		}
	}
	if m.Marker != "" {
		if err := api.ValidateSQLRequest(ms); err != nil {
			d.Validate = "rejected: " + err.Error()
		} else {
			d.Validate = "accepted"
		}
	}
	return d
}

type c15Result struct {
	sig    string
	detail any
}

func checkC15(c *vlib.Ctx) {
	c.Rule("statements SELECT item, item, ... built from tokens with known kind / byte span / decoded value: string literals ('..' with doubled quotes and raw backslashes, E'..' with escapes, $$..$$, $tag$..$tag$ incl. non-ASCII tags), quoted identifiers, bare identifiers (incl. __STR_n__/__IDENT_n__/__FROM_MASK_n__ look-alikes and denylisted keywords), numbers, parameters, EXTRACT/SUBSTRING/TRIM(... FROM ...), with line (LF / CR / EOF terminated), block and nested block comments between tokens; token contents drawn from quotes, backslashes, dollar tags, comment markers, newlines, unicode, look-alikes. Each statement is first parsed by DuckDB (json_serialize_sql): unless DuckDB reports exactly the generator's items and values the case is discarded. A case is non-trivial when DuckDB confirmed it; distinct = distinct statement text. Plus unstructured strings over the same alphabet for the round-trip check.")
	c.Assume("DuckDB's own parser (reference engine in the same binary, same DuckDB version as arc links) is the authority on token boundaries; json_serialize_sql reports constants and identifiers after lexing")
	c.Assume("comment stripping is unexported: it is observed only through api.ValidateSQLRequest accepting/rejecting a denylisted keyword placed inside vs outside literals/comments")

	if c.Replay != "" {
		replayC15(c)
		return
	}
	ref0, err := vfix.NewRef()
	if err != nil {
		c.Inconclusive("reference engine: " + err.Error())
		return
	}
	var markers []string
	for _, m := range markers15 {
		if it, err := duckItems(ref0, "SELECT "+m+", 1"); err == nil && len(it) == 2 && it[0].Class == "COLUMN_REF" {
			if api.ValidateSQLRequest("SELECT "+m+", 1") != nil && api.ValidateSQLRequest("SELECT '"+m+"', 1") == nil {
				markers = append(markers, m)
			}
		}
	}
	ref0.Close()
	c.Extra("denylisted_keywords_usable_as_probe", markers)
	if len(markers) < 3 {
		c.Inconclusive("fewer than 3 denylisted keywords parse as column references")
		return
	}

	n := c.N(100000, 2000000)
	nSoup := c.N(60000, 1000000)
	const workers = 8
	type job struct {
		st   stmt
		soup string
	}
	rng := c.Rand("c15-gen")
	jobs := make([]job, 0, n+nSoup)
	for i := 0; i < n; i++ {
		jobs = append(jobs, job{st: genStmt(rng, i%3 != 0, markers)})
	}
	rs := c.Rand("c15-soup")
	for i := 0; i < nSoup; i++ {
		jobs = append(jobs, job{soup: genSoup(rs)})
	}

	// phase 1 (parallel): evaluate every case, record failures unshrunk
	type fail struct {
		kind string // span | rt | probe | soup
		pre  string // signature before shrinking
		v    string // probe disagreement text
	}
	fails := make([][]fail, len(jobs))
	var wg sync.WaitGroup
	for w := 0; w < workers; w++ {
		wg.Add(1)
		go func(w int) {
			defer wg.Done()
			ref, err := vfix.NewRef()
			if err != nil {
				c.Inconclusive("reference engine: " + err.Error())
				return
			}
			defer ref.Close()
			for i := w; i < len(jobs); i += workers {
				j := &jobs[i]
				c.Eval()
				if j.soup != "" {
					c.Count("unstructured_strings", 1)
					if _, _, _, bad := arcPieces(j.soup); bad != "" {
						fails[i] = append(fails[i], fail{kind: "soup-api", pre: "mask API inconsistent: " + bad})
					}
					if sig := roundTrip(j.soup); sig != "" {
						c.Count("round_trip_failures", 1)
						fails[i] = append(fails[i], fail{kind: "soup", pre: sig})
					}
					continue
				}
				s := j.st.text()
				if !confirmed(ref, &j.st, s) {
					c.Count("discarded_generator_and_duckdb_disagree_or_duckdb_rejects", 1)
					continue
				}
				c.Nontrivial(s)
				c.Count("duckdb_confirmed_statements", 1)
				for _, t := range j.st.Toks {
					switch t.Kind {
					case "lit":
						c.Count("literals_checked", 1)
					case "qid":
						c.Count("quoted_identifiers_checked", 1)
					case "cmt":
						c.Count("comments_checked", 1)
					}
				}
				if i%12000 == 0 {
					c.Sample(map[string]any{"sql": s, "marker": j.st.Marker, "marker_where": j.st.Where})
				}
				if d := spanDiff(&j.st, s); d != "" { // (a) masked pieces == ground truth
					c.Count("mask_span_disagreements", 1)
					fails[i] = append(fails[i], fail{kind: "span", pre: d})
				}
				if sig := roundTrip(s); sig != "" { // (b) round trip
					c.Count("round_trip_failures", 1)
					fails[i] = append(fails[i], fail{kind: "rt", pre: sig})
				}
				if j.st.Marker != "" { // (c) keyword probe through ValidateSQLRequest
					c.Count("validation_keyword_probes", 1)
					if v, _ := validateProbe(&j.st, s); v != "" {
						c.Count("validation_probe_disagreements", 1)
						fails[i] = append(fails[i], fail{kind: "probe", pre: probeCause(&j.st, s), v: v})
					}
				}
			}
		}(w)
	}
	wg.Wait()

	// phase 2 (sequential, in case order): shrink the first occurrences of every
	// preliminary signature, name the cause on the shrunk statement, report
	ref, err := vfix.NewRef()
	if err != nil {
		c.Inconclusive("reference engine: " + err.Error())
		return
	}
	defer ref.Close()
	done := map[string]int{}
	sigCount := map[string]int{}
	for i := range fails {
		for _, f := range fails[i] {
			j := &jobs[i]
			lexical := !strings.HasPrefix(f.pre, "comment stripping") && !strings.HasPrefix(f.pre, "validation rejects") && !strings.HasPrefix(f.pre, "nested block") && !strings.HasPrefix(f.pre, "carriage return") && !strings.HasPrefix(f.pre, "identifier quotes")
			if lexical && done[f.kind+f.pre] >= 2 {
				sigCount[f.pre]++
				continue
			}
			done[f.kind+f.pre]++
			var sig string
			var detail any
			switch f.kind {
			case "soup", "soup-api":
				min := j.soup
				if f.kind == "soup" {
					min = shrinkString(j.soup, func(x string) bool { return roundTrip(x) == f.pre })
				}
				sig, detail = f.pre, rtDetail(j.soup, min)
			case "rt":
				m := shrink(j.st, func(x *stmt) bool { xs := x.text(); return confirmed(ref, x, xs) && roundTrip(xs) == f.pre })
				sig, detail = f.pre, rtDetail(j.st.text(), m.text())
			case "span":
				m := shrink(j.st, func(x *stmt) bool { xs := x.text(); return confirmed(ref, x, xs) && spanDiff(x, xs) == f.pre })
				sig, detail = f.pre, describe("masked pieces vs DuckDB tokens", j.st.text(), &m)
			case "probe":
				m := shrink(j.st, func(x *stmt) bool {
					xs := x.text()
					if !confirmed(ref, x, xs) {
						return false
					}
					xv, _ := validateProbe(x, xs)
					return xv == f.v
				})
				sig, detail = probeCause(&m, m.text()), describe("ValidateSQLRequest keyword probe: "+f.v, j.st.text(), &m)
			}
			sigCount[sig]++
			c.Violation(sig, detail)
		}
	}
	var sigs []string
	for s, k := range sigCount {
		sigs = append(sigs, fmt.Sprintf("%s  [x%d]", s, k))
	}
	sort.Strings(sigs)
	c.Extra("refuting_signatures", sigs)
	c.Floor(c.N(40000, 500000))
}

func rtDetail(orig, min string) map[string]any {
	masked, masks := sqlutil.MaskStringLiterals(min, sqlutil.HasQuotes(min))
	fm, fmasks := sqlutil.MaskFromKeywordsInFunctionBodies(masked)
	return map[string]any{"check": "round trip", "sql": orig, "minimal_sql": min, "masked": masked,
		"unmasked": sqlutil.UnmaskStringLiterals(masked, masks), "from_masked": fm, "from_unmasked": sqlutil.UnmaskFromKeywordsInFunctionBodies(fm, fmasks)}
}

// shrinkString removes runs of bytes (on rune boundaries) while pred holds.
func shrinkString(s string, pred func(string) bool) string {
	cur := s
	for changed := true; changed; {
		changed = false
		rs := []rune(cur)
		for i := 0; i < len(rs); i++ {
			c := string(rs[:i]) + string(rs[i+1:])
			if pred(c) {
				cur = c
				rs = []rune(cur)
				changed = true
				i--
			}
		}
	}
	return cur
}

func replayC15(c *vlib.Ctx) {
	var d struct {
		SQL     string `json:"sql"`
		Minimal string `json:"minimal_sql"`
	}
	if err := vlib.LoadReplay(c.Replay, &d); err != nil {
		c.Inconclusive("replay file: " + err.Error())
		return
	}
	for _, s := range []string{d.SQL, d.Minimal} {
		if s == "" {
			continue
		}
		c.Eval()
		c.Nontrivial(s)
		c.Nontrivial(s + "#")
		masked, masks := sqlutil.MaskStringLiterals(s, sqlutil.HasQuotes(s))
		var orig []string
		for _, m := range masks {
			orig = append(orig, m.Original)
		}
		un := sqlutil.UnmaskStringLiterals(masked, masks)
		verr := api.ValidateSQLRequest(s)
		fmt.Printf("REPLAY sql=%q\n  masked=%q\n  pieces=%q\n  unmask==sql: %v\n  ValidateSQLRequest: %v\n", s, masked, orig, un == s, verr)
	}
	fmt.Println("(replay prints arc's view; compare with DuckDB: SELECT json_serialize_sql('<sql>'))")
}
