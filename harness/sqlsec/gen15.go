package main

// Token-sequence generator for C15 with built-in ground truth: every statement is
//   SELECT <item> , <item> , ...
// where an item is a string literal (four quoting styles), a quoted identifier, a bare
// identifier (incl. placeholder look-alikes and denylisted keywords), a number, a
// parameter or a FROM-carrying builtin, and comments / whitespace sit between tokens.
// The generator knows the kind, byte span and decoded value of every token.

import (
	"math/rand/v2"
	"strings"
)

type tok struct {
	Kind  string   `json:"kind"`  // lit | qid | cmt | bare | num | param | fn | ws | punct
	Style string   `json:"style"` // lit: sq|E|dollar|dtag ; cmt: line|linecr|lineeof|block|nested
	Atoms []string `json:"atoms,omitempty"`
	Tag   string   `json:"tag,omitempty"`
	Text  string   `json:"text"`
	Val   string   `json:"val,omitempty"`
	Start int      `json:"start"`
	End   int      `json:"end"`
	Item  bool     `json:"item,omitempty"` // a select-list item (what DuckDB reports)
	Sub   bool     `json:"sub,omitempty"`  // literal nested inside an fn item
}

// content atoms (raw, style-independent meaning)
var atoms15 = []string{"a", "b", "x y", "Q", "'", "'", `"`, `"`, `\`, `\`, `\`, "--", "/*", "*/", "$$", "$t$", "$", ";", "\n", "é", "日本", "__STR_0__", "__STR_1__", "__IDENT_0__", "__FROM_MASK_0__", "FROM x", "E'", "%", "_", "/", "*", "/ "}

var markers15 = []string{"ATTACH", "DETACH", "COPY", "PRAGMA", "LOAD", "INSTALL", "CALL", "RESET"}

func pickAtoms(r *rand.Rand, max int) []string {
	n := r.IntN(max + 1)
	out := make([]string, 0, n)
	for i := 0; i < n; i++ {
		out = append(out, atoms15[r.IntN(len(atoms15))])
	}
	return out
}

// build fills Text and Val from Kind/Style/Atoms; it returns false if the atoms cannot
// be written in that style (caller drops the offending atom).
func (t *tok) build() bool {
	switch t.Kind {
	case "lit":
		var raw, val strings.Builder
		switch t.Style {
		case "sq":
			for _, a := range t.Atoms {
				val.WriteString(a)
				raw.WriteString(strings.ReplaceAll(a, "'", "''"))
			}
			t.Text, t.Val = "'"+raw.String()+"'", val.String()
		case "E":
			for _, a := range t.Atoms {
				val.WriteString(a)
				switch a {
				case `\`:
					raw.WriteString(`\\`)
				case "'":
					if len(raw.String())%2 == 0 {
						raw.WriteString(`\'`)
					} else {
						raw.WriteString(`''`)
					}
				case "\n":
					raw.WriteString(`\n`)
				default:
					raw.WriteString(strings.ReplaceAll(a, "'", `\'`))
				}
			}
			p := "E"
			if t.Tag == "e" {
				p = "e"
			}
			t.Text, t.Val = p+"'"+raw.String()+"'", val.String()
		case "dollar", "dtag":
			d := "$" + t.Tag + "$"
			for _, a := range t.Atoms {
				val.WriteString(a)
			}
			v := val.String()
			if strings.Contains(v, d) || strings.HasSuffix(v, "$") || (t.Tag == "" && strings.Contains(v, "$")) {
				return false
			}
			t.Text, t.Val = d+v+d, v
		}
	case "qid":
		var raw, val strings.Builder
		for _, a := range t.Atoms {
			val.WriteString(a)
			raw.WriteString(strings.ReplaceAll(a, `"`, `""`))
		}
		if val.Len() == 0 {
			return false
		}
		t.Text, t.Val = `"`+raw.String()+`"`, val.String()
	case "cmt":
		body := strings.Join(t.Atoms, "")
		switch t.Style {
		case "line", "linecr", "lineeof":
			if strings.ContainsAny(body, "\n\r") {
				return false
			}
			t.Text = "--" + body
		case "block":
			if strings.Contains(body, "*/") || strings.Contains(body, "/*") || strings.HasSuffix(body, "*") || strings.HasSuffix(body, "/") {
				return false
			}
			t.Text = "/*" + body + "*/"
		case "nested":
			if strings.Contains(body, "*/") || strings.Contains(body, "/*") || strings.HasSuffix(body, "*") || strings.HasSuffix(body, "/") {
				return false
			}
			t.Text = "/* n /* i */" + body + "*/"
		}
	}
	return true
}

func genTokBody(r *rand.Rand, t *tok, maxAtoms int) {
	t.Atoms = pickAtoms(r, maxAtoms)
	for !t.build() {
		if len(t.Atoms) == 0 {
			t.Atoms = []string{"a"}
			continue
		}
		i := r.IntN(len(t.Atoms))
		t.Atoms = append(t.Atoms[:i:i], t.Atoms[i+1:]...)
	}
}

func genItem(r *rand.Rand, markers []string) []tok {
	switch k := r.IntN(100); {
	case k < 40:
		t := tok{Kind: "lit", Item: true}
		switch s := r.IntN(10); {
		case s < 5:
			t.Style = "sq"
		case s < 7:
			t.Style = "E"
			if r.IntN(3) == 0 {
				t.Tag = "e"
			}
		case s < 8:
			t.Style = "dollar"
		default:
			t.Style = "dtag"
			t.Tag = []string{"t", "tag1", "_x", "é", "T", "a1", "_0", "q2w"}[r.IntN(8)]
		}
		genTokBody(r, &t, 4)
		return []tok{t}
	case k < 58:
		t := tok{Kind: "qid", Item: true}
		genTokBody(r, &t, 3)
		return []tok{t}
	case k < 72:
		names := []string{"zz", "col1", "__STR_0__", "__STR_1__", "__IDENT_0__", "__FROM_MASK_0__", "e", "E", "fromage"}
		n := names[r.IntN(len(names))]
		return []tok{{Kind: "bare", Text: n, Val: n, Item: true}}
	case k < 80:
		n := []string{"1", "42", "3.5", "1 - 2", "6 / 3", "2 * 3", "7 - - 1"}[r.IntN(7)]
		return []tok{{Kind: "num", Text: n, Item: true}}
	case k < 84:
		return []tok{{Kind: "param", Text: "$1", Item: true}}
	default:
		switch r.IntN(3) {
		case 0:
			return []tok{{Kind: "fn", Text: "EXTRACT(year FROM ts)", Item: true}}
		case 1:
			return []tok{{Kind: "fn", Text: "SUBSTRING(zz FROM 2)", Item: true}}
		}
		return []tok{{Kind: "fn", Text: "TRIM(BOTH ", Item: true}, {Kind: "lit", Style: "sq", Atoms: []string{"x"}, Text: "'x'", Val: "x", Sub: true}, {Kind: "punct", Text: " FROM zz)"}}
	}
}

func genGap(r *rand.Rand, withComments bool) []tok {
	var out []tok
	n := []int{0, 0, 1, 1, 2}[r.IntN(5)]
	for i := 0; i < n; i++ {
		if withComments && r.IntN(2) == 0 {
			t := tok{Kind: "cmt"}
			switch s := r.IntN(10); {
			case s < 4:
				t.Style = "line"
			case s < 5:
				t.Style = "linecr"
			case s < 9:
				t.Style = "block"
			default:
				t.Style = "nested"
			}
			genTokBody(r, &t, 3)
			out = append(out, t)
			switch t.Style {
			case "line":
				out = append(out, tok{Kind: "ws", Text: "\n"})
			case "linecr":
				out = append(out, tok{Kind: "ws", Text: "\r"})
			}
		} else {
			out = append(out, tok{Kind: "ws", Text: []string{" ", " ", "\n", "\t", "  ", "\r\n"}[r.IntN(6)]})
		}
	}
	return out
}

// stmt is a generated statement with its ground truth.
type stmt struct {
	Toks   []tok  `json:"tokens"`
	Marker string `json:"marker,omitempty"`
	Where  string `json:"marker_where,omitempty"` // outside | lit | qid | cmt
}

func (s *stmt) text() string {
	var sb strings.Builder
	for i := range s.Toks {
		s.Toks[i].Start = sb.Len()
		sb.WriteString(s.Toks[i].Text)
		s.Toks[i].End = sb.Len()
	}
	return sb.String()
}

func genStmt(r *rand.Rand, withComments bool, markers []string) stmt {
	var s stmt
	s.Toks = append(s.Toks, tok{Kind: "punct", Text: "SELECT"}, tok{Kind: "ws", Text: " "})
	n := 1 + r.IntN(5)
	for i := 0; i < n; i++ {
		if i > 0 {
			s.Toks = append(s.Toks, genGap(r, withComments)...)
			s.Toks = append(s.Toks, tok{Kind: "punct", Text: ","})
		}
		s.Toks = append(s.Toks, genGap(r, withComments)...)
		s.Toks = append(s.Toks, genItem(r, markers)...)
	}
	if withComments && r.IntN(4) == 0 {
		s.Toks = append(s.Toks, tok{Kind: "ws", Text: " "})
		t := tok{Kind: "cmt", Style: "lineeof"}
		genTokBody(r, &t, 3)
		s.Toks = append(s.Toks, t)
	}
	// optionally place exactly one denylisted keyword
	if len(markers) > 0 && r.IntN(2) == 0 {
		m := markers[r.IntN(len(markers))]
		var cand []int
		for i, t := range s.Toks {
			if (t.Kind == "lit" && !t.Sub) || t.Kind == "qid" || t.Kind == "cmt" {
				cand = append(cand, i)
			}
		}
		if len(cand) == 0 || r.IntN(3) == 0 {
			if r.IntN(2) == 0 {
				s.Toks = append(s.Toks[:2:2], append([]tok{{Kind: "bare", Text: m, Val: m, Item: true}, {Kind: "punct", Text: ","}, {Kind: "ws", Text: " "}}, s.Toks[2:]...)...)
			} else {
				// after the last item (and after whatever comment ends it)
				last := len(s.Toks)
				if s.Toks[last-1].Kind == "cmt" && s.Toks[last-1].Style == "lineeof" {
					s.Toks = s.Toks[:last-2]
				}
				s.Toks = append(s.Toks, genGap(r, withComments)...)
				s.Toks = append(s.Toks, tok{Kind: "punct", Text: ","})
				s.Toks = append(s.Toks, genGap(r, withComments)...)
				s.Toks = append(s.Toks, tok{Kind: "bare", Text: m, Val: m, Item: true})
			}
			s.Marker, s.Where = m, "outside"
		} else {
			i := cand[r.IntN(len(cand))]
			t := &s.Toks[i]
			pos := r.IntN(len(t.Atoms) + 1)
			at := append(append(append([]string{}, t.Atoms[:pos]...), " "+m+" "), t.Atoms[pos:]...)
			old := t.Atoms
			t.Atoms = at
			if t.build() {
				s.Marker, s.Where = m, t.Kind
			} else {
				t.Atoms = old
				t.build()
			}
		}
	}
	return s
}

// soup is an unstructured string over the same alphabet (round-trip checks only).
func genSoup(r *rand.Rand) string {
	extra := []string{"'", `"`, "E'", "e'", " ", " ", ",", "(", ")", "EXTRACT(", "TRIM(", " FROM ", "SELECT ", "\r", "\t", "/* ", " */", "-- "}
	n := 1 + r.IntN(12)
	var sb strings.Builder
	for i := 0; i < n; i++ {
		if r.IntN(2) == 0 {
			sb.WriteString(atoms15[r.IntN(len(atoms15))])
		} else {
			sb.WriteString(extra[r.IntN(len(extra))])
		}
	}
	return sb.String()
}
