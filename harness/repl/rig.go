package main

// The rig: a real wal.Writer whose replication hook is wired to a real
// replication.Sender exactly as Coordinator.StartReplication does, a harness
// acceptor that plays Coordinator.handleReplicateSync/AcceptReplicationConnection
// for the handshake, and real replication.Receivers with recording handlers.

import (
	"context"
	"crypto/sha256"
	"fmt"
	"net"
	"os"
	"strings"
	"sync"
	"sync/atomic"
	"time"

	"github.com/basekick-labs/arc/internal/cluster/protocol"
	"github.com/basekick-labs/arc/internal/cluster/replication"
	"github.com/basekick-labs/arc/internal/cluster/security"
	"github.com/basekick-labs/arc/internal/wal"
	"github.com/basekick-labs/arc/internal/zzverif/vlib"
	"github.com/rs/zerolog"
)

const (
	sharedSecret = "c24-cluster-shared-secret-0123456789abcdef"
	clusterName  = "c24-cluster"
	writerNodeID = "writer-1"
)

// appliedRec is one call of the receiver's IngestHandler.
type appliedRec struct {
	Hash [32]byte
	Head string // first bytes of the payload (carries the generator's unique id)
	Len  int
}

// recorder is the IngestHandler of the monitored reader: it records every applied
// payload in apply order.
type recorder struct {
	mu  sync.Mutex
	log []appliedRec
}

func (r *recorder) ApplyReplicatedEntry(_ context.Context, payload []byte) error {
	h := sha256.Sum256(payload)
	n := len(payload)
	if n > 40 {
		n = 40
	}
	r.mu.Lock()
	r.log = append(r.log, appliedRec{Hash: h, Head: string(payload[:n]), Len: len(payload)})
	r.mu.Unlock()
	return nil
}

func (r *recorder) Len() int {
	r.mu.Lock()
	defer r.mu.Unlock()
	return len(r.log)
}

func (r *recorder) Snapshot() []appliedRec {
	r.mu.Lock()
	defer r.mu.Unlock()
	return append([]appliedRec(nil), r.log...)
}

// logSink keeps the Warn/Error/Debug lines of the sender and the receiver that
// explain a connection drop (per-entry and per-ack chatter is filtered out).
type logSink struct {
	mu    sync.Mutex
	lines []string
	drops int
	tee   func(string) // optional: kept lines are also handed to the case's ordered event trace
}

func (l *logSink) setTee(f func(string)) {
	l.mu.Lock()
	l.tee = f
	l.mu.Unlock()
}

func (l *logSink) Write(b []byte) (int, error) {
	s := string(b)
	switch {
	case strings.Contains(s, "checkpoint verified"), strings.Contains(s, "Received ack"):
	case strings.Contains(s, "entry dropped"):
		l.mu.Lock()
		l.drops++
		l.mu.Unlock()
	default:
		l.mu.Lock()
		if len(l.lines) < 60 {
			l.lines = append(l.lines, strings.TrimSpace(s))
		}
		tee := l.tee
		l.mu.Unlock()
		if tee != nil {
			tee(strings.TrimSpace(s))
		}
	}
	return len(b), nil
}

func (l *logSink) Lines() []string {
	l.mu.Lock()
	defer l.mu.Unlock()
	return append([]string(nil), l.lines...)
}

func (l *logSink) logger() zerolog.Logger {
	return zerolog.New(l).Level(zerolog.DebugLevel)
}

type rig struct {
	slog     *logSink
	dir      string
	w        *wal.Writer
	sender   *replication.Sender
	acceptLn net.Listener
	nonces   *security.NonceCache
	ctx      context.Context
	cancel   context.CancelFunc

	handshakesOK  atomic.Int64
	handshakesBad atomic.Int64

	onActivated atomic.Pointer[func(readerID string)] // optional: called right after Sender.ActivateReader returned
}

func newRig(bufSize, cpInterval int) (*rig, error) {
	g := &rig{dir: vlib.TempDir("repl"), slog: &logSink{}}
	g.ctx, g.cancel = context.WithCancel(context.Background())
	w, err := wal.NewWriter(&wal.WriterConfig{
		WALDir:     g.dir,
		SyncMode:   wal.SyncModeAsync,
		BufferSize: 200000,
		Logger:     zerolog.Nop(),
	})
	if err != nil {
		g.close()
		return nil, err
	}
	g.w = w
	// -- as Coordinator.StartReplication (writer branch) --
	g.sender = replication.NewSender(&replication.SenderConfig{
		BufferSize:         bufSize,
		WriteTimeout:       5 * time.Second,
		Logger:             g.slog.logger(),
		SharedSecret:       sharedSecret,
		ClusterName:        clusterName,
		LocalNodeID:        writerNodeID,
		CheckpointInterval: cpInterval, // production leaves the default; the property quantifies over 1-50
	})
	if err := g.sender.Start(g.ctx); err != nil {
		g.close()
		return nil, err
	}
	sender := g.sender
	g.w.SetReplicationHook(func(entry *wal.ReplicationEntry) {
		sender.Replicate(&replication.ReplicateEntry{
			Sequence:    entry.Sequence,
			TimestampUS: entry.TimestampUS,
			Payload:     entry.Payload,
		})
	})
	// -- end of copied wiring --
	g.nonces = security.NewNonceCache(security.HMACTimestampTolerance)
	ln, err := net.Listen("tcp", "127.0.0.1:0")
	if err != nil {
		g.close()
		return nil, err
	}
	g.acceptLn = ln
	go g.acceptLoop()
	return g, nil
}

func (g *rig) addr() string { return g.acceptLn.Addr().String() }

func (g *rig) acceptLoop() {
	for {
		conn, err := g.acceptLn.Accept()
		if err != nil {
			return
		}
		go g.handlePeer(conn)
	}
}

// handlePeer mirrors Coordinator.handlePeerConnection (MsgReplicateSync branch),
// handleReplicateSync and AcceptReplicationConnection.
func (g *rig) handlePeer(conn net.Conn) {
	msg, err := protocol.ReceiveMessage(conn, 10*time.Second)
	if err != nil || msg.Type != protocol.MsgReplicateSync {
		g.handshakesBad.Add(1)
		conn.Close()
		return
	}
	syncReq := msg.Payload.(*protocol.ReplicateSync)
	reject := func() {
		g.handshakesBad.Add(1)
		_ = protocol.SendMessage(conn, &protocol.Message{
			Type:    protocol.MsgReplicateSyncAck,
			Payload: &protocol.ReplicateSyncAck{Error: "authentication failed"},
		}, 5*time.Second)
		conn.Close()
	}
	if syncReq.HMAC == "" || syncReq.Nonce == "" || syncReq.ClusterName == "" || syncReq.Timestamp == 0 ||
		syncReq.ReaderID == writerNodeID || syncReq.ClusterName != clusterName {
		reject()
		return
	}
	if err := security.ValidateReplicateSyncHMAC(sharedSecret, syncReq.Nonce, syncReq.ReaderID, syncReq.ClusterName,
		syncReq.LastKnownSequence, syncReq.Timestamp, syncReq.HMAC, security.HMACTimestampTolerance); err != nil {
		reject()
		return
	}
	if !g.nonces.Track(syncReq.ReaderID, syncReq.Nonce) {
		reject()
		return
	}
	if strings.HasPrefix(syncReq.ReaderID, "slow-") {
		// network condition of the deliberately slow reader: a small send buffer, so
		// that the writer's sends to it really wait for the peer
		if tc, ok := conn.(*net.TCPConn); ok {
			_ = tc.SetWriteBuffer(slowBuf())
		}
	}
	reader, err := g.sender.PrepareReader(conn, syncReq.ReaderID, syncReq.Nonce, syncReq.LastKnownSequence)
	if err != nil {
		g.handshakesBad.Add(1)
		return
	}
	cur, canResume := g.sender.CurrentSequenceAndCanResume(syncReq.LastKnownSequence)
	if err := protocol.SendMessage(conn, &protocol.Message{
		Type:    protocol.MsgReplicateSyncAck,
		Payload: &protocol.ReplicateSyncAck{CurrentSequence: cur, CanResume: canResume},
	}, 5*time.Second); err != nil {
		reader.Discard()
		g.handshakesBad.Add(1)
		return
	}
	g.sender.ActivateReader(reader)
	if f := g.onActivated.Load(); f != nil {
		(*f)(syncReq.ReaderID)
	}
	g.handshakesOK.Add(1)
}

func (g *rig) close() {
	if g.acceptLn != nil {
		g.acceptLn.Close()
	}
	if g.w != nil {
		g.w.SetReplicationHook(nil)
	}
	if g.sender != nil {
		_ = g.sender.Stop()
	}
	if g.w != nil {
		_ = g.w.Close()
	}
	if g.cancel != nil {
		g.cancel()
	}
	if g.dir != "" {
		os.RemoveAll(g.dir)
	}
}

func newReceiver(id, addr string, h replication.IngestHandler, lg zerolog.Logger, reconnect time.Duration) *replication.Receiver {
	return replication.NewReceiver(&replication.ReceiverConfig{
		ReaderID:          id,
		WriterAddr:        addr,
		IngestHandler:     h,
		ReconnectInterval: reconnect,
		AckInterval:       10 * time.Millisecond,
		Logger:            lg,
		SharedSecret:      sharedSecret,
		ClusterName:       clusterName,
	})
}

func statI(m map[string]interface{}, k string) int64 {
	switch v := m[k].(type) {
	case int64:
		return v
	case int:
		return int64(v)
	case uint64:
		return int64(v)
	}
	panic(fmt.Sprintf("stat %q has unexpected type %T", k, m[k]))
}

// envelope is the generator's own statement of what AppendRawWithMeta hands to
// the replication hook: [0x01][2-byte big-endian db length][db][payload].
func envelope(db string, payload []byte) []byte {
	out := make([]byte, 0, 3+len(db)+len(payload))
	out = append(out, 0x01, byte(len(db)>>8), byte(len(db)))
	out = append(out, db...)
	return append(out, payload...)
}

// rawHandshake performs the reader side of the replication handshake on a plain
// TCP connection to the acceptor (what Receiver.connect does) and returns the
// connection positioned at the start of the entry stream.
func rawHandshake(addr, id string, lastSeq uint64, rcvBuf int) (net.Conn, error) {
	conn, err := net.DialTimeout("tcp", addr, 5*time.Second)
	if err != nil {
		return nil, err
	}
	if tc, ok := conn.(*net.TCPConn); ok && rcvBuf > 0 {
		_ = tc.SetReadBuffer(rcvBuf)
	}
	nonce, err := security.GenerateNonce()
	if err != nil {
		conn.Close()
		return nil, err
	}
	ts := time.Now().Unix()
	req := &protocol.ReplicateSync{ReaderID: id, LastKnownSequence: lastSeq, Nonce: nonce, ClusterName: clusterName, Timestamp: ts,
		HMAC: security.ComputeReplicateSyncHMAC(sharedSecret, nonce, id, clusterName, lastSeq, ts)}
	if err := protocol.SendMessage(conn, &protocol.Message{Type: protocol.MsgReplicateSync, Payload: req}, 5*time.Second); err != nil {
		conn.Close()
		return nil, err
	}
	msg, err := protocol.ReceiveMessage(conn, 5*time.Second)
	if err != nil {
		conn.Close()
		return nil, err
	}
	ack, ok := msg.Payload.(*protocol.ReplicateSyncAck)
	if msg.Type != protocol.MsgReplicateSyncAck || !ok || ack.Error != "" {
		conn.Close()
		return nil, fmt.Errorf("handshake refused")
	}
	return conn, nil
}

// attached reports whether the writer currently lists a reader id.
func (g *rig) attached(id string) bool {
	rs, _ := g.sender.Stats()["readers"].([]map[string]interface{})
	for _, r := range rs {
		if r["reader_id"] == id {
			return true
		}
	}
	return false
}

// slowBuf is the socket buffer size (both ends) of the deliberately slow raw
// reader: small enough that the writer's sends to it wait for the peer, large
// enough to stay clear of zero-window stalls (4 KiB made the stream crawl).
func slowBuf() int { return 32768 }
