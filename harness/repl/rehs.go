package main

// Same-id re-handshake family of C24: a real Receiver R is connected and
// receiving while 1-8 writer goroutines append; its connection is turned into a
// half-open one (the reader's end is closed, the writer keeps its end and is told
// nothing), so the Receiver's own reconnect logic performs the real handshake
// under the SAME reader id while the writer still holds the previous connection.
// The writer's end of the abandoned connection is closed by the peer before the
// new activation, after it, or never. After the new connection has been activated
// the writers append N more entries; nobody touches the new connection.
//
// Oracle: the new connection is not ended by the writer, and every one of the N
// entries (minus what the writer counted as dropped) is applied exactly once, in
// increasing sequence order, on that connection.

import (
	"crypto/sha256"
	"encoding/binary"
	"errors"
	"fmt"
	"math/rand/v2"
	"sort"
	"strings"
	"sync"
	"sync/atomic"
	"time"

	"github.com/basekick-labs/arc/internal/wal"
)

const (
	sigRehsDrop   = "healthy connection dropped by the writer after the same reader id re-handshaked (stale receiveLoop removed the new connection)"
	sigRehsMissed = "entry queued after a same-id re-handshake was activated neither applied on the new connection nor counted as dropped"
	sigRehsReject = "same-id re-handshake: reader rejected the stream on the new connection"
	sigRehsOrder  = "same-id re-handshake: entries applied out of sequence order"

	rehsReader = "reader-R"
)

// trace is the ordered record of what the harness, the proxy, the writer's log
// and the reader's log showed during one case (order of observation, no clock).
type trace struct {
	mu    sync.Mutex
	n     int
	lines []string
}

func (t *trace) add(format string, a ...any) {
	s := fmt.Sprintf(format, a...)
	t.mu.Lock()
	t.n++
	if len(t.lines) < 160 {
		t.lines = append(t.lines, fmt.Sprintf("%03d %s", t.n, s))
	}
	t.mu.Unlock()
}

func (t *trace) snapshot() []string {
	t.mu.Lock()
	defer t.mu.Unlock()
	return append([]string(nil), t.lines...)
}

// writer state word: [mode:16][round:16][left:32]
const (
	rmTransit = 0 // unchecked background stream (a re-handshake may be in progress)
	rmPost    = 1 // the N entries after activation of round `round`; `left` still to be claimed
	rmStop    = 2
)

func rehsState(mode, round, left int) uint64 {
	return uint64(mode)<<48 | uint64(round)<<32 | uint64(uint32(left))
}

type rehsEntry struct {
	Producer, N int
	Round       int // 0: background stream; k>0: appended after the activation of re-handshake k
	Hash        [32]byte
}

type rehsRound struct {
	K          int
	OldIdx     int // proxy connection that was abandoned
	NewIdx     int // proxy connection opened by the re-handshake
	Activated  bool
	Dropped0   int64 // writer's dropped counter when the N entries started
	Dropped1   int64 // ... when the round's sentinel had been applied
	Completed  bool  // the round's sentinel was applied
	DropSeen   string
	Discarded  int64
	SentHash   [32]byte
	PostQueued int
}

func runRehsCase(sp caseSpec) (res caseResult) {
	res.Spec = sp
	tr := &trace{}
	g, err := newRig(sp.BufSize, sp.CPInterval)
	if err != nil {
		res.Inconcl = "rig setup: " + err.Error()
		return
	}
	defer g.close()
	g.slog.setTee(func(s string) { tr.add("writer log: %s", s) })
	onAct := func(id string) { tr.add("acceptor: Sender.ActivateReader(%s) returned", id) }
	g.onActivated.Store(&onAct)

	rec := &recorder{}
	rlog := &logSink{}
	rlog.setTee(func(s string) {
		if strings.Contains(s, "Connecting to writer") {
			return
		}
		tr.add("reader log: %s", s)
	})
	px, err := newProxy(g.addr(), rec, nil, nil)
	if err != nil {
		res.Inconcl = "proxy setup: " + err.Error()
		return
	}
	pev := func(s string) { tr.add("%s", s) }
	px.ev.Store(&pev)
	rcv := newReceiver(rehsReader, px.addr(), rec, rlog.logger(), 3*time.Millisecond)
	stopped := false
	stopAll := func() {
		if stopped {
			return
		}
		stopped = true
		px.stopping.Store(true)
		_ = rcv.Stop()
		px.stop()
	}
	defer stopAll()
	if err := rcv.Start(g.ctx); err != nil {
		res.Inconcl = "receiver start: " + err.Error()
		return
	}
	dl := time.Now().Add(15 * time.Second)
	for !(rcv.IsConnected() && g.sender.ReaderCount() == 1) {
		if time.Now().After(dl) {
			res.Inconcl = "reader did not connect within 15s"
			return
		}
		time.Sleep(time.Millisecond)
	}

	// ---- writers
	var state atomic.Uint64
	var postDone atomic.Int64
	var appendErr atomic.Int64
	state.Store(rehsState(rmTransit, 0, 0))
	gen := make([][]rehsEntry, sp.Producers)
	var wg sync.WaitGroup
	for p := 0; p < sp.Producers; p++ {
		wg.Add(1)
		go func(p int) {
			defer wg.Done()
			rng := rand.New(rand.NewPCG(sp.Seed, uint64(p)+1))
			n := 0
			background := 0
			for {
				v := state.Load()
				mode, round, left := int(v>>48), int(v>>32)&0xffff, uint32(v)
				ph := 0
				switch mode {
				case rmStop:
					return
				case rmPost:
					if left == 0 {
						time.Sleep(100 * time.Microsecond)
						continue
					}
					if !state.CompareAndSwap(v, v-1) {
						continue
					}
					ph = round
				default:
					if background >= 20000 { // bound the unchecked stream of a case that waits long
						time.Sleep(200 * time.Microsecond)
						continue
					}
					background++
				}
				size := rng.IntN(sp.MaxPayload + 1)
				id := fmt.Sprintf("C24|c%d|p%d|n%d|", sp.ID, p, n)
				buf := make([]byte, len(id)+size)
				copy(buf, id)
				for j := len(id); j < len(buf); j += 8 {
					var w [8]byte
					binary.LittleEndian.PutUint64(w[:], rng.Uint64())
					copy(buf[j:], w[:])
				}
				meta := rng.IntN(3) != 0
				db := []string{"db", "metrics_prod", "d"}[rng.IntN(3)]
				e := rehsEntry{Producer: p, N: n, Round: ph}
				var err error
				if meta {
					e.Hash = sha256.Sum256(envelope(db, buf))
					gen[p] = append(gen[p], e)
					err = g.w.AppendRawWithMeta(db, buf)
				} else {
					e.Hash = sha256.Sum256(buf)
					gen[p] = append(gen[p], e)
					err = g.w.AppendRaw(buf)
				}
				if err != nil && !errors.Is(err, wal.ErrWALDropped) {
					appendErr.Add(1)
				}
				n++
				if ph > 0 {
					postDone.Add(1)
				} else {
					time.Sleep(time.Duration(20+rng.IntN(80)) * time.Microsecond)
				}
			}
		}(p)
	}
	stopWriters := func() {
		state.Store(rehsState(rmStop, 0, 0))
		wg.Wait()
	}
	writersStopped := false
	defer func() {
		if !writersStopped {
			stopWriters()
		}
	}()

	// R is connected and receiving
	dl = time.Now().Add(15 * time.Second)
	for rec.Len() < 30 {
		if time.Now().After(dl) {
			res.Inconcl = "reader did not apply 30 entries of the running stream within 15s"
			return
		}
		time.Sleep(200 * time.Microsecond)
	}

	hrng := rand.New(rand.NewPCG(sp.Seed, 0x5E115))
	applied := func(h [32]byte) bool {
		log := rec.Snapshot()
		for i := len(log) - 1; i >= 0; i-- {
			if log[i].Hash == h {
				return true
			}
		}
		return false
	}
	var rounds []*rehsRound
	sentinels := map[[32]byte]int{}
	dropRound := -1

rounds:
	for k := 1; k <= sp.Rehs; k++ {
		time.Sleep(time.Duration(hrng.IntN(2000)) * time.Microsecond)
		rd := &rehsRound{K: k}
		rounds = append(rounds, rd)
		nBefore := len(px.Sessions())
		hsBefore := g.handshakesOK.Load()
		tr.add("harness: re-handshake %d: abandon connection #%d (reader's end closed, writer's end left open; writer lists %s: %v)", k, nBefore-1, rehsReader, g.attached(rehsReader))
		old := px.blackholeCurrent()
		if old == nil {
			res.Inconcl = fmt.Sprintf("re-handshake %d: no open connection to abandon", k)
			return
		}
		rd.OldIdx = old.Idx
		if sp.OldClose == "before" {
			// either right away (the writer usually cleans up before the reader is
			// back) or when the reader has dialled again (the writer learns about the
			// old connection's end while the new handshake is in flight)
			if hrng.IntN(2) == 0 {
				time.Sleep(time.Duration(hrng.IntN(300)) * time.Microsecond)
				tr.add("harness: peer closes the writer's end of abandoned connection #%d (before the new activation, at once)", old.Idx)
			} else {
				dl = time.Now().Add(15 * time.Second)
				for len(px.Sessions()) <= nBefore && time.Now().Before(dl) {
					time.Sleep(20 * time.Microsecond)
				}
				tr.add("harness: peer closes the writer's end of abandoned connection #%d (before the new activation, while the reader dials again)", old.Idx)
			}
			px.closeUpstream(old)
		}
		// the Receiver notices the dead link and re-handshakes by itself under the same id
		dl = time.Now().Add(15 * time.Second)
		for !(g.handshakesOK.Load() > hsBefore && len(px.Sessions()) > nBefore) {
			if time.Now().After(dl) {
				res.Inconcl = fmt.Sprintf("re-handshake %d was not activated within 15s", k)
				return
			}
			time.Sleep(50 * time.Microsecond)
		}
		rd.NewIdx = nBefore
		rd.Activated = true
		res.RehsDone++
		if sp.OldClose == "after" {
			time.Sleep(time.Duration(hrng.IntN(500)) * time.Microsecond)
			tr.add("harness: peer closes the writer's end of abandoned connection #%d (after the new activation)", old.Idx)
			px.closeUpstream(old)
		} // "never": the writer's end stays open until the writer itself closes it (or the case ends)
		// ---- N entries queued after the activation, by the same concurrent writers
		rd.Dropped0 = statI(g.sender.Stats(), "total_entries_dropped")
		postDone.Store(0)
		tr.add("harness: re-handshake %d activated as connection #%d; writers append %d entries now", k, rd.NewIdx, sp.PostEntries)
		state.Store(rehsState(rmPost, k, sp.PostEntries))
		dl = time.Now().Add(15 * time.Second)
		for postDone.Load() < int64(sp.PostEntries) {
			if time.Now().After(dl) {
				res.Inconcl = fmt.Sprintf("re-handshake %d: the %d appends did not finish within 15s", k, sp.PostEntries)
				return
			}
			time.Sleep(100 * time.Microsecond)
		}
		rd.PostQueued = sp.PostEntries
		res.RehsChecked += sp.PostEntries
		state.Store(rehsState(rmTransit, k, 0))
		sent := []byte(fmt.Sprintf("C24|c%d|rehs-sentinel|r%d|", sp.ID, k))
		rd.SentHash = sha256.Sum256(sent)
		sentinels[rd.SentHash] = k
		if err := g.w.AppendRaw(sent); err != nil && !errors.Is(err, wal.ErrWALDropped) {
			res.Inconcl = "sentinel append failed: " + err.Error()
			return
		}
		// ---- until the reader has handled everything sent before the sentinel, or the
		// new connection is gone
		dl = time.Now().Add(15 * time.Second)
		for {
			ss := px.Sessions()
			switch {
			case ss[rd.NewIdx].ClosedBy() != "":
				rd.DropSeen = "connection ended"
			case len(ss) > rd.NewIdx+1:
				rd.DropSeen = "reader opened a further connection"
			case !g.attached(rehsReader):
				rd.DropSeen = "writer no longer lists the reader"
			}
			if rd.DropSeen != "" {
				tr.add("harness: new connection #%d lost (%s) although nobody touched it; writer lists %s: %v", rd.NewIdx, rd.DropSeen, rehsReader, g.attached(rehsReader))
				dropRound = k
				// let the close be attributed at the proxy and collect a little more history
				dl2 := time.Now().Add(2 * time.Second)
				for px.Sessions()[rd.NewIdx].ClosedBy() == "" && time.Now().Before(dl2) {
					time.Sleep(200 * time.Microsecond)
				}
				time.Sleep(30 * time.Millisecond)
				break rounds
			}
			if applied(rd.SentHash) {
				rd.Completed = true
				rd.Dropped1 = statI(g.sender.Stats(), "total_entries_dropped")
				tr.add("harness: re-handshake %d: sentinel applied, connection #%d still up", k, rd.NewIdx)
				break
			}
			if time.Now().After(dl) {
				res.Inconcl = fmt.Sprintf("re-handshake %d: the end-of-batch sentinel was not applied within 15s and the new connection was not lost (applied %d)", k, rec.Len())
				return
			}
			time.Sleep(200 * time.Microsecond)
		}
	}
	stopWriters()
	writersStopped = true
	if appendErr.Load() > 0 {
		res.Inconcl = fmt.Sprintf("%d appends failed", appendErr.Load())
		return
	}
	for _, rd := range rounds {
		if ss := px.Sessions(); rd.OldIdx < len(ss) {
			rd.Discarded = ss[rd.OldIdx].discarded.Load()
		}
	}
	st := g.sender.Stats()
	res.Dropped = statI(st, "total_entries_dropped")
	stopAll()
	rs := rcv.Stats()
	res.RecvErrors = statI(rs, "total_errors")
	res.WriterLog = g.slog.Lines()
	res.ReaderLog = rlog.Lines()

	// ---- oracle over the logs
	generated := map[[32]byte]*rehsEntry{}
	total := 0
	for p := range gen {
		for i := range gen[p] {
			generated[gen[p][i].Hash] = &gen[p][i]
			total++
		}
	}
	res.Queued = total + len(sentinels)
	log := rec.Snapshot()
	sessions := px.Sessions()
	res.Applied = len(log)
	res.Sessions = len(sessions)
	res.Events = res.RehsDone
	res.Landed = res.RehsDone > 0
	res.AdvNote = fmt.Sprintf("rehandshakes=%d old_closed=%s checked_after=%d", res.RehsDone, sp.OldClose, res.RehsChecked)
	add := func(sig string, d map[string]any) {
		d["case"] = sp
		d["reader"] = rehsReader
		d["rehandshakes_exercised"] = res.RehsDone
		d["trace"] = tr.snapshot()
		res.Violations = append(res.Violations, viol{Sig: sig, Detail: d})
	}
	if got := statI(st, "total_entries_received"); got != int64(res.Queued) {
		add(sigNotHanded, map[string]any{"appends": res.Queued, "sender_received": got})
	}
	apps, _, bad := attribute(sessions, log)
	if bad != nil {
		if _, amb := bad["attribution_ambiguous_payload_was_forwarded_on_session"]; amb {
			res.Inconcl = fmt.Sprintf("applied entries could not be attributed to connections (apply index %v): %v", bad["apply_index"], bad)
			return
		}
		add(sigWirePrefix, bad)
		return
	}
	seen := map[[32]byte]int{} // hash -> connection it was applied on
	var lastSeq uint64
	for i, a := range apps {
		h := a.RF.F.Hash
		if _, isSent := sentinels[h]; !isSent && generated[h] == nil {
			add(sigNotQueued, map[string]any{"apply_index": i, "sequence": a.RF.F.Seq, "payload_head": log[i].Head})
			continue
		}
		if _, dup := seen[h]; dup {
			add(sigTwice, map[string]any{"apply_index": i, "sequence": a.RF.F.Seq, "connection": a.Sess})
			continue
		}
		seen[h] = a.Sess
		if a.RF.F.Seq <= lastSeq {
			add(sigRehsOrder, map[string]any{"apply_index": i, "sequence": a.RF.F.Seq, "previous_sequence": lastSeq})
		} else {
			lastSeq = a.RF.F.Seq
		}
	}
	for _, rd := range rounds {
		if !rd.Activated || rd.PostQueued == 0 {
			continue
		}
		onNew, elsewhere, never := 0, 0, 0
		var ex []string
		for _, ge := range generated {
			if ge.Round != rd.K {
				continue
			}
			conn, ok := seen[ge.Hash]
			switch {
			case ok && conn == rd.NewIdx:
				onNew++
			case ok:
				elsewhere++
			default:
				never++
				if len(ex) < 6 {
					ex = append(ex, fmt.Sprintf("p%d/n%d", ge.Producer, ge.N))
				}
			}
		}
		sort.Strings(ex)
		base := map[string]any{"rehandshake": rd.K, "abandoned_connection": rd.OldIdx, "new_connection": rd.NewIdx,
			"old_connection_closed_by_peer": sp.OldClose, "writers": sp.Producers,
			"entries_queued_after_activation": rd.PostQueued, "applied_on_new_connection": onNew,
			"applied_on_a_later_connection": elsewhere, "never_applied": never, "never_applied_examples": ex,
			"writer_frames_discarded_on_abandoned_connection": rd.Discarded}
		if rd.K == dropRound {
			closedBy := sessions[rd.NewIdx].ClosedBy()
			base["new_connection_ended_first_by"] = closedBy
			base["observed"] = rd.DropSeen
			base["receiver_total_errors"] = res.RecvErrors
			base["connections_total"] = len(sessions)
			base["sender_dropped"] = res.Dropped
			wl := strings.Join(res.WriterLog, "\n")
			if strings.Contains(wl, "i/o timeout") {
				res.Inconcl = fmt.Sprintf("re-handshake %d: the writer reported a send timeout (machine load); new connection ended by %q; trace=%q", rd.K, closedBy, tr.snapshot())
				res.Violations = nil
				return
			}
			switch {
			case res.RecvErrors > 0:
				add(sigRehsReject, base)
			case closedBy == "sender":
				base["removal_path"] = "receiveLoop defer (RemoveReader by id)"
				if strings.Contains(wl, "Failed to send entry to reader") {
					base["removal_path"] = "receiveLoop defer and/or broadcast failure branch (RemoveReader by id); the writer log has a failed send to the cancelled old connection"
				}
				add(sigRehsDrop, base)
			default:
				res.Inconcl = fmt.Sprintf("re-handshake %d: new connection lost (%s) but not attributable to the writer (ended first by %q, receiver errors 0); trace=%q", rd.K, rd.DropSeen, closedBy, tr.snapshot())
				res.Violations = nil
				return
			}
			continue
		}
		if !rd.Completed {
			continue
		}
		missing := elsewhere + never
		if int64(missing) > rd.Dropped1-rd.Dropped0 {
			base["sender_dropped_during_batch"] = rd.Dropped1 - rd.Dropped0
			add(sigRehsMissed, base)
		}
	}
	return
}
