package main

// Multi-reader family of C24: 2-5 real Receivers on one Sender, some of them
// ("victims") repeatedly removed / cut / replaced under the same id while the
// stream runs, optionally an extra raw reader that drains slowly. The oracle is
// the single-reader one, applied to every reader that stayed connected for the
// whole run.

import (
	"crypto/sha256"
	"errors"
	"fmt"
	"math/rand/v2"
	"net"
	"sort"
	"sync"
	"sync/atomic"
	"time"

	"github.com/basekick-labs/arc/internal/cluster/replication"
	"github.com/basekick-labs/arc/internal/wal"
)

const (
	sigMultiMissed  = "healthy reader silently missed an entry the writer did not count as dropped (multi-reader broadcast)"
	sigMultiDropped = "multi-reader: a reader nobody touched rejected the stream or lost its connection"
	sigMultiOrder   = "multi-reader: entries applied out of sequence order"
)

type mreader struct {
	id     string
	victim bool
	rec    *recorder
	rlog   *logSink
	px     *proxy
	rcv    *replication.Receiver
}

// slowReader drains a raw replication connection with a pause per frame.
func slowReader(conn net.Conn, stop *atomic.Bool, wg *sync.WaitGroup) {
	defer wg.Done()
	defer conn.Close()
	for !stop.Load() {
		_ = conn.SetReadDeadline(time.Now().Add(500 * time.Millisecond))
		if _, err := readFrame(conn); err != nil {
			var ne net.Error
			if errors.As(err, &ne) && ne.Timeout() {
				continue
			}
			return
		}
		time.Sleep(150 * time.Microsecond)
	}
}

func drain(conn net.Conn, wg *sync.WaitGroup) {
	defer wg.Done()
	defer conn.Close()
	_ = conn.SetReadDeadline(time.Now().Add(3 * time.Second))
	for {
		if _, err := readFrame(conn); err != nil {
			return
		}
	}
}

func runMultiCase(sp caseSpec) (res caseResult) {
	res.Spec = sp
	per := genPayloads(sp)
	queued := map[[32]byte]*genEntry{}
	for p := range per {
		for i := range per[p] {
			queued[per[p][i].Hash] = &per[p][i]
		}
	}
	// the sentinel closes the stream: a reader that applied it has handled every
	// frame the writer sent to it before
	sentinel := []byte(fmt.Sprintf("C24|c%d|sentinel|", sp.ID))
	sentHash := sha256.Sum256(sentinel)
	queued[sentHash] = &genEntry{Producer: -1, N: 0, Payload: sentinel, Hash: sentHash}
	res.Queued = len(queued)

	g, err := newRig(sp.BufSize, sp.CPInterval)
	if err != nil {
		res.Inconcl = "rig setup: " + err.Error()
		return
	}
	defer g.close()

	var readers []*mreader
	defer func() {
		for _, r := range readers {
			r.px.stopping.Store(true)
		}
		for _, r := range readers {
			_ = r.rcv.Stop()
			r.px.stop()
		}
	}()
	for i := 0; i < sp.Readers; i++ {
		r := &mreader{id: fmt.Sprintf("reader-%d", i), victim: i >= sp.Readers-sp.Victims, rec: &recorder{}, rlog: &logSink{}}
		r.px, err = newProxy(g.addr(), r.rec, nil, nil)
		if err != nil {
			res.Inconcl = "proxy setup: " + err.Error()
			return
		}
		ri := 25 * time.Millisecond
		if r.victim {
			ri = 3 * time.Millisecond // come back quickly so that it can be hit again
		}
		r.rcv = newReceiver(r.id, r.px.addr(), r.rec, r.rlog.logger(), ri)
		readers = append(readers, r)
		if err := r.rcv.Start(g.ctx); err != nil {
			res.Inconcl = "receiver start: " + err.Error()
			return
		}
	}
	var auxWG sync.WaitGroup
	var auxStop atomic.Bool
	var auxMu sync.Mutex
	var auxConns []net.Conn
	defer func() {
		auxStop.Store(true)
		auxMu.Lock()
		for _, c := range auxConns {
			c.Close()
		}
		auxMu.Unlock()
		auxWG.Wait()
	}()
	want := sp.Readers
	if sp.Slow {
		conn, err := rawHandshake(g.addr(), "slow-0", 0, slowBuf())
		if err != nil {
			res.Inconcl = "slow reader handshake: " + err.Error()
			return
		}
		auxConns = append(auxConns, conn)
		auxWG.Add(1)
		go slowReader(conn, &auxStop, &auxWG)
		want++
	}
	dl := time.Now().Add(15 * time.Second)
	for {
		ok := g.sender.ReaderCount() == want
		for _, r := range readers {
			ok = ok && r.rcv.IsConnected()
		}
		if ok {
			break
		}
		if time.Now().After(dl) {
			res.Inconcl = "readers did not all connect within 15s"
			return
		}
		time.Sleep(time.Millisecond)
	}

	// ---- producers + disturber
	var wg sync.WaitGroup
	var appendErr atomic.Int64
	var producing atomic.Bool
	producing.Store(true)
	for p := range per {
		wg.Add(1)
		go func(list []genEntry) {
			defer wg.Done()
			for i := range list {
				e := &list[i]
				var err error
				if e.Meta {
					err = g.w.AppendRawWithMeta(e.DB, e.Payload)
				} else {
					err = g.w.AppendRaw(e.Payload)
				}
				if err != nil && !errors.Is(err, wal.ErrWALDropped) {
					appendErr.Add(1)
				}
			}
		}(per[p])
	}
	events := map[string]int{}
	var dwg sync.WaitGroup
	dwg.Add(1)
	go func() {
		defer dwg.Done()
		rng := rand.New(rand.NewPCG(sp.Seed, 0xD157))
		var victims []*mreader
		for _, r := range readers {
			if r.victim {
				victims = append(victims, r)
			}
		}
		stopAt := time.Now().Add(6 * time.Second)
		n := 0
		for n < sp.MaxEvents && time.Now().Before(stopAt) {
			if !producing.Load() && statI(g.sender.Stats(), "buffer_used") == 0 {
				break
			}
			v := victims[rng.IntN(len(victims))]
			act := []string{"remove", "cut", "rehandshake"}[rng.IntN(3)]
			pause := time.Duration(rng.IntN(300)) * time.Microsecond
			if !g.attached(v.id) {
				time.Sleep(200 * time.Microsecond)
				continue
			}
			time.Sleep(pause)
			switch act {
			case "remove":
				g.sender.RemoveReader(v.id)
			case "cut":
				if !v.px.cutCurrent() {
					continue
				}
			case "rehandshake":
				conn, err := rawHandshake(g.addr(), v.id, 0, 0)
				if err != nil {
					continue
				}
				auxMu.Lock()
				auxConns = append(auxConns, conn)
				auxMu.Unlock()
				auxWG.Add(1)
				go drain(conn, &auxWG)
			}
			events[act]++
			n++
		}
	}()
	wg.Wait()
	producing.Store(false)
	dwg.Wait()
	if appendErr.Load() > 0 {
		res.Inconcl = fmt.Sprintf("%d appends failed", appendErr.Load())
		return
	}
	// ---- drain, then the sentinel
	dl = time.Now().Add(15 * time.Second)
	for statI(g.sender.Stats(), "buffer_used") != 0 {
		if time.Now().After(dl) {
			res.Inconcl = "writer queue did not drain within 15s"
			return
		}
		time.Sleep(time.Millisecond)
	}
	if err := g.w.AppendRaw(sentinel); err != nil && !errors.Is(err, wal.ErrWALDropped) {
		res.Inconcl = "sentinel append failed: " + err.Error()
		return
	}
	hasSentinel := func(r *mreader) bool {
		for _, a := range r.rec.Snapshot() {
			if a.Hash == sentHash {
				return true
			}
		}
		return false
	}
	dl = time.Now().Add(15 * time.Second)
	for time.Now().Before(dl) {
		done := true
		for _, r := range readers {
			if r.victim {
				continue
			}
			ss := r.px.Sessions()
			gone := len(ss) != 1 || ss[0].ClosedBy() != "" || statI(r.rcv.Stats(), "total_errors") > 0
			if !gone && !hasSentinel(r) {
				done = false
			}
		}
		if done {
			break
		}
		time.Sleep(2 * time.Millisecond)
	}
	time.Sleep(10 * time.Millisecond)
	st := g.sender.Stats()
	res.Dropped = statI(st, "total_entries_dropped")
	for _, r := range readers {
		r.px.stopping.Store(true)
	}
	for _, r := range readers {
		_ = r.rcv.Stop()
	}
	for _, r := range readers {
		r.px.stop()
	}

	// ---- oracle, per reader
	res.Events = events["remove"] + events["cut"] + events["rehandshake"]
	res.Landed = res.Events > 0
	res.AdvNote = fmt.Sprintf("remove=%d cut=%d rehandshake=%d", events["remove"], events["cut"], events["rehandshake"])
	if statI(st, "total_entries_received") != int64(sp.Entries)+1 {
		res.Violations = append(res.Violations, viol{Sig: sigNotHanded, Detail: map[string]any{"case": sp, "appends": sp.Entries + 1,
			"sender_received": statI(st, "total_entries_received")}})
	}
	for _, r := range readers {
		log := r.rec.Snapshot()
		sessions := r.px.Sessions()
		res.Applied += len(log)
		res.Sessions += len(sessions)
		rs := r.rcv.Stats()
		res.RecvErrors += statI(rs, "total_errors")
		add := func(sig string, d map[string]any) {
			d["case"] = sp
			d["reader"] = r.id
			d["reader_was_disturbed"] = r.victim
			d["events"] = res.AdvNote
			res.Violations = append(res.Violations, viol{Sig: sig, Detail: d})
		}
		apps, _, bad := attribute(sessions, log)
		if bad != nil {
			if _, amb := bad["attribution_ambiguous_payload_was_forwarded_on_session"]; amb {
				res.Inconcl = fmt.Sprintf("reader %s: applied entries could not be attributed to connections (apply index %v): %v", r.id, bad["apply_index"], bad)
				continue
			}
			add(sigWirePrefix, bad)
			continue
		}
		// safety for every reader, disturbed or not
		seen := map[[32]byte]int{}
		var lastSeq uint64
		for i, a := range apps {
			ge := queued[a.RF.F.Hash]
			if ge == nil {
				add(sigNotQueued, map[string]any{"apply_index": i, "sequence": a.RF.F.Seq, "payload_head": log[i].Head})
				continue
			}
			if prev, dup := seen[a.RF.F.Hash]; dup {
				add(sigTwice, map[string]any{"apply_index": i, "first_apply_index": prev, "sequence": a.RF.F.Seq})
				continue
			}
			seen[a.RF.F.Hash] = i
			if a.RF.F.Seq <= lastSeq {
				add(sigMultiOrder, map[string]any{"apply_index": i, "sequence": a.RF.F.Seq, "previous_sequence": lastSeq})
			} else {
				lastSeq = a.RF.F.Seq
			}
		}
		if r.victim {
			continue
		}
		// a reader nobody touched: must have stayed connected ...
		closedBy := ""
		if len(sessions) > 0 {
			closedBy = sessions[0].ClosedBy()
		}
		errs := statI(rs, "total_errors")
		if closedBy == "sender" && errs == 0 {
			res.Inconcl = fmt.Sprintf("writer closed the connection of untouched %s first (write timeout under load?); writer_log=%q", r.id, g.slog.Lines())
			res.Violations = nil
			return
		}
		if errs > 0 || len(sessions) != 1 || closedBy == "receiver" {
			add(sigMultiDropped, map[string]any{"connections": len(sessions), "receiver_total_errors": errs, "closed_by": closedBy,
				"reader_log": r.rlog.Lines(), "writer_log": g.slog.Lines()})
			continue
		}
		// ... and, once it has applied the sentinel, have applied everything the writer
		// queued and did not count as dropped
		if _, ok := seen[sentHash]; !ok {
			res.Inconcl = fmt.Sprintf("untouched %s did not reach the end-of-stream sentinel within 15s (applied %d of %d)", r.id, len(log), len(queued))
			res.Violations = nil
			return
		}
		missing := len(queued) - len(seen)
		if int64(missing) != res.Dropped {
			var ex []string
			for h, ge := range queued {
				if _, ok := seen[h]; !ok && len(ex) < 6 {
					ex = append(ex, fmt.Sprintf("p%d/n%d", ge.Producer, ge.N))
				}
			}
			sort.Strings(ex)
			// sequence numbers the writer never put on this reader's wire
			var gaps [][2]uint64
			var prev uint64
			for _, f := range sessions[0].S {
				if !f.IsEntry {
					continue
				}
				if f.Seq != prev+1 && len(gaps) < 6 {
					gaps = append(gaps, [2]uint64{prev + 1, f.Seq - 1})
				}
				prev = f.Seq
			}
			add(sigMultiMissed, map[string]any{"missing": missing, "sender_dropped": res.Dropped, "missing_entries": ex,
				"sequence_ranges_never_sent_to_this_reader": gaps, "applied": len(log), "queued": len(queued),
				"readers": sp.Readers, "victims": sp.Victims, "slow_reader": sp.Slow})
		}
	}
	return
}

// probeReplaceSameID is an observation, not a verdict of C24: a reader handshakes
// again under an id the writer still holds (what a reader does after a half-open
// connection). ActivateReader replaces and closes the old connection; the old
// connection's receive loop then runs its deferred RemoveReader(id), which looks
// the reader up by id. The probe records whether the NEW connection survives.
func probeReplaceSameID() map[string]any {
	out := map[string]any{}
	g, err := newRig(1000, 10)
	if err != nil {
		out["error"] = err.Error()
		return out
	}
	defer g.close()
	c1, err := rawHandshake(g.addr(), "probe-reader", 0, 0)
	if err != nil {
		out["error"] = err.Error()
		return out
	}
	defer c1.Close()
	for i := 0; i < 2000 && g.sender.ReaderCount() != 1; i++ {
		time.Sleep(time.Millisecond)
	}
	c2, err := rawHandshake(g.addr(), "probe-reader", 0, 0)
	if err != nil {
		out["error"] = err.Error()
		return out
	}
	defer c2.Close()
	// nobody touches c2 from here on
	removed := false
	for i := 0; i < 1500; i++ {
		if g.sender.ReaderCount() == 0 {
			removed = true
			break
		}
		time.Sleep(time.Millisecond)
	}
	out["new_connection_removed_by_writer"] = removed
	_ = g.w.AppendRaw([]byte("C24|probe|entry"))
	_ = c2.SetReadDeadline(time.Now().Add(700 * time.Millisecond))
	_, rerr := readFrame(c2)
	out["new_connection_received_next_entry"] = rerr == nil
	if rerr != nil {
		out["new_connection_read_error"] = rerr.Error()
	}
	out["writer_log"] = g.slog.Lines()
	return out
}
