package main

// C24: the replicated WAL stream is ordered, gap-free and authenticated.

import (
	"crypto/sha256"
	"encoding/binary"
	"encoding/hex"
	"errors"
	"fmt"
	"math/rand/v2"
	"os"
	"runtime"
	"sort"
	"strconv"
	"sync"
	"sync/atomic"
	"time"

	"github.com/basekick-labs/arc/internal/cluster/replication"
	"github.com/basekick-labs/arc/internal/verifhook"
	"github.com/basekick-labs/arc/internal/wal"
	"github.com/basekick-labs/arc/internal/zzverif/vlib"
	"github.com/rs/zerolog"
)

const hookAfterSeq = "repl.sender.after_seq"

// Stable signatures (known findings are matched on these).
const (
	sigOutOfOrder    = "honest wire: receiver rejected stream (out-of-order sequence from concurrent producers)"
	sigHealthyDrop   = "honest wire: receiver dropped a healthy connection (writer stream was in order)"
	sigHonestMissing = "honest wire: queued entry neither applied nor reported dropped while the reader stayed connected"
	sigHonestOrder   = "honest wire: entries applied out of sequence order"
	sigNotHanded     = "append not handed to the replication sender"
	sigTwice         = "entry applied more than once"
	sigNotQueued     = "applied payload was never queued by the writer"
	sigWirePrefix    = "applied entries do not match the frames put on the wire"
)

// caseSpec fully determines the generated inputs of one run (the thread schedule
// is not determined by it).
type caseSpec struct {
	ID         int      `json:"id"`
	Mode       string   `json:"mode"` // honest | adversary
	Producers  int      `json:"producers"`
	Entries    int      `json:"entries"` // total over all producers
	CPInterval int      `json:"checkpoint_interval"`
	BufSize    int      `json:"sender_buffer"`
	MaxPayload int      `json:"max_payload"`
	Seed       uint64   `json:"seed"`
	Widen      bool     `json:"widen"` // delay rules active at repl.sender.after_seq
	Adv        *advSpec `json:"adversary,omitempty"`
	// multi-reader family
	Readers   int  `json:"readers,omitempty"`     // real Receivers attached to the one Sender
	Victims   int  `json:"victims,omitempty"`     // how many of them are removed / cut / replaced during the stream
	Slow      bool `json:"slow_reader,omitempty"` // an additional raw reader that drains slowly (widens the broadcast loop)
	MaxEvents int  `json:"max_events,omitempty"`
	// same-id re-handshake family
	Rehs        int    `json:"rehandshakes,omitempty"`                  // re-handshakes in a row under the reader's own id
	OldClose    string `json:"old_connection_closed_by_peer,omitempty"` // before | after (the new activation) | never
	PostEntries int    `json:"entries_after_each_rehandshake,omitempty"`
}

type caseResult struct {
	Spec        caseSpec
	Inconcl     string
	Violations  []viol
	Applied     int
	Queued      int
	Dropped     int64
	Sessions    int
	RecvErrors  int64
	Disorder    int // out-of-order positions in the writer's own wire output
	Landed      bool
	AdvNote     string
	NativeDrops int64 // wal-local ErrWALDropped (not part of the property)
	ReaderLog   []string
	Events      int // multi-reader family: remove / cut / re-handshake actions performed
	WriterLog   []string
	RehsDone    int // same-id re-handshake family: re-handshakes whose activation was observed
	RehsChecked int // ... entries queued after those activations and checked against the new connection
}

type viol struct {
	Sig    string
	Detail map[string]any
}

// ---------------------------------------------------------------- generation

func genCases(c *vlib.Ctx) []caseSpec {
	rng := c.Rand("cases")
	var out []caseSpec
	id := 0
	nh := c.N(36, 600)
	prodChoices := []int{1, 2, 3, 4, 6, 8, 12, 16}
	for i := 0; i < nh; i++ {
		p := prodChoices[i%len(prodChoices)]
		if i >= len(prodChoices) {
			p = 1 + rng.IntN(16)
		}
		buf := []int{10000, 10000, 10000, 512, 64}[rng.IntN(5)]
		sp := caseSpec{ID: id, Mode: "honest", Producers: p, Entries: 2000, CPInterval: 1 + rng.IntN(50),
			BufSize: buf, MaxPayload: []int{64, 512, 2048, 8192}[rng.IntN(4)], Seed: rng.Uint64(), Widen: i%3 != 2}
		out = append(out, sp)
		id++
	}
	na := c.N(90, 1800)
	for i := 0; i < na; i++ {
		kind := advKinds[i%len(advKinds)]
		p := 1
		if (i/len(advKinds))%2 == 1 {
			p = 1 + rng.IntN(16)
		}
		entries := 400
		cp := 1 + rng.IntN(50)
		at := 3 + rng.IntN(entries/2)
		if p > 1 {
			at = 3 + rng.IntN(40) // concurrent producers may cost the connection early; strike before that
		}
		sp := caseSpec{ID: id, Mode: "adversary", Producers: p, Entries: entries, CPInterval: cp, BufSize: 10000,
			MaxPayload: []int{64, 512, 2048}[rng.IntN(3)], Seed: rng.Uint64(), Widen: p > 1 && rng.IntN(2) == 0,
			Adv: &advSpec{Kind: kind, At: at, Delta: 1 + rng.IntN(3), Bit: rng.IntN(1 << 20)}}
		if kind == "replay-cp" || kind == "drop-replay-cp" {
			// a checkpoint must exist before the trigger
			sp.Adv.At += cp
		}
		out = append(out, sp)
		id++
	}
	// multi-reader family: own PRNG stream so that the two families above keep
	// their case lists
	mr := c.Rand("multi-cases")
	nm := c.N(30, 450)
	for i := 0; i < nm; i++ {
		readers := 2 + i%4 // 2..5
		victims := 1
		if readers >= 4 && mr.IntN(2) == 0 {
			victims = 2
		}
		sp := caseSpec{ID: id, Mode: "multi", Producers: 1 + mr.IntN(4), Entries: 500 + mr.IntN(500), CPInterval: 1 + mr.IntN(50),
			BufSize: 10000, MaxPayload: []int{64, 256, 512}[mr.IntN(3)], Seed: mr.Uint64(),
			Readers: readers, Victims: victims, Slow: i%3 != 2, MaxEvents: 400}
		out = append(out, sp)
		id++
	}
	// same-id re-handshake family: own PRNG stream again
	rr := c.Rand("rehs-cases")
	nr := c.N(27, 405)
	for i := 0; i < nr; i++ {
		sp := caseSpec{ID: id, Mode: "rehs", Producers: 1 + (i+i/8)%8, CPInterval: 1 + rr.IntN(50),
			BufSize: 10000, MaxPayload: []int{64, 256, 512}[rr.IntN(3)], Seed: rr.Uint64(),
			Rehs: 1 + (i/3)%3, OldClose: []string{"before", "after", "never"}[i%3], PostEntries: 200 + rr.IntN(400)}
		out = append(out, sp)
		id++
	}
	return out
}

type genEntry struct {
	Producer int
	N        int
	Meta     bool
	DB       string
	Payload  []byte   // what the producer passes to the WAL
	Hash     [32]byte // sha256 of what must reach the reader
}

func genPayloads(sp caseSpec) [][]genEntry {
	per := make([][]genEntry, sp.Producers)
	base := sp.Entries / sp.Producers
	extra := sp.Entries % sp.Producers
	for p := 0; p < sp.Producers; p++ {
		rng := rand.New(rand.NewPCG(sp.Seed, uint64(p)+1))
		n := base
		if p < extra {
			n++
		}
		for i := 0; i < n; i++ {
			size := rng.IntN(sp.MaxPayload + 1)
			if rng.IntN(50) == 0 {
				size = sp.MaxPayload*4 + rng.IntN(1024)
			}
			id := fmt.Sprintf("C24|c%d|p%d|n%d|", sp.ID, p, i)
			buf := make([]byte, len(id)+size)
			copy(buf, id)
			for j := len(id); j < len(buf); j += 8 {
				var w [8]byte
				binary.LittleEndian.PutUint64(w[:], rng.Uint64())
				copy(buf[j:], w[:])
			}
			e := genEntry{Producer: p, N: i, Meta: rng.IntN(3) != 0, DB: []string{"db", "metrics_prod", "d"}[rng.IntN(3)], Payload: buf}
			if e.Meta {
				e.Hash = sha256.Sum256(envelope(e.DB, buf))
			} else {
				e.Hash = sha256.Sum256(buf)
			}
			per[p] = append(per[p], e)
		}
	}
	return per
}

// ---------------------------------------------------------------- one run

var widenCounter atomic.Uint64
var activeWiden atomic.Int64

// installWidening sets the process-wide delay policy at the point between
// sequence assignment and enqueue in Sender.Replicate (a no-op when the call site
// is not compiled into the tree under test). The policy only acts while a case
// that asked for it is running.
func installWidening() {
	verifhook.Set(hookAfterSeq, verifhook.Rule{Action: "call", Fn: func(string) error {
		if activeWiden.Load() == 0 {
			return nil
		}
		n := widenCounter.Add(1)
		x := n * 0x9E3779B97F4A7C15
		switch {
		case x>>60 == 0: // 1/16
			time.Sleep(time.Duration(20+(x>>40)%400) * time.Microsecond)
		case x>>62 == 1: // 1/4
			runtime.Gosched()
		}
		return nil
	}})
}

func runCase(sp caseSpec) (res caseResult) {
	if sp.Mode == "multi" {
		return runMultiCase(sp)
	}
	if sp.Mode == "rehs" {
		return runRehsCase(sp)
	}
	res.Spec = sp
	per := genPayloads(sp)
	queued := map[[32]byte]*genEntry{}
	for p := range per {
		for i := range per[p] {
			queued[per[p][i].Hash] = &per[p][i]
		}
	}
	res.Queued = len(queued)

	g, err := newRig(sp.BufSize, sp.CPInterval)
	if err != nil {
		res.Inconcl = "rig setup: " + err.Error()
		return
	}
	defer g.close()

	rec := &recorder{}
	var adv *adversary
	var tp *tap
	var pxB *proxy
	var rcvB *replication.Receiver
	if sp.Adv != nil {
		if sp.Adv.Kind == "splice-insert" || sp.Adv.Kind == "splice-replace" {
			tp = newTap()
			pxB, err = newProxy(g.addr(), nil, nil, tp)
			if err != nil {
				res.Inconcl = "proxy setup: " + err.Error()
				return
			}
			defer pxB.stop()
			rcvB = newReceiver("reader-B", pxB.addr(), &recorder{}, zerolog.Nop(), 25*time.Millisecond)
		}
		adv = newAdversary(*sp.Adv, tp)
	}
	px, err := newProxy(g.addr(), rec, adv, nil)
	if err != nil {
		res.Inconcl = "proxy setup: " + err.Error()
		return
	}
	defer px.stop()
	rlog := &logSink{}
	rcv := newReceiver("reader-A", px.addr(), rec, rlog.logger(), 25*time.Millisecond)
	if err := rcv.Start(g.ctx); err != nil {
		res.Inconcl = "receiver start: " + err.Error()
		return
	}
	defer rcv.Stop()
	want := 1
	if rcvB != nil {
		if err := rcvB.Start(g.ctx); err != nil {
			res.Inconcl = "receiver B start: " + err.Error()
			return
		}
		defer rcvB.Stop()
		want = 2
	}
	// the property speaks about a connected reader: start writing only then
	dl := time.Now().Add(15 * time.Second)
	for !(rcv.IsConnected() && g.sender.ReaderCount() == want && (rcvB == nil || rcvB.IsConnected())) {
		if time.Now().After(dl) {
			res.Inconcl = "reader did not connect within 15s"
			return
		}
		time.Sleep(time.Millisecond)
	}

	if sp.Widen {
		activeWiden.Add(1)
	}
	var wg sync.WaitGroup
	var walDropped, appendErr atomic.Int64
	start := make(chan struct{})
	for p := range per {
		wg.Add(1)
		go func(list []genEntry) {
			defer wg.Done()
			<-start
			for i := range list {
				e := &list[i]
				var err error
				if e.Meta {
					err = g.w.AppendRawWithMeta(e.DB, e.Payload)
				} else {
					err = g.w.AppendRaw(e.Payload)
				}
				if err != nil {
					if errors.Is(err, wal.ErrWALDropped) {
						walDropped.Add(1) // local WAL backpressure; the hook already ran
					} else {
						appendErr.Add(1)
					}
				}
			}
		}(per[p])
	}
	close(start)
	wg.Wait()
	if sp.Widen {
		activeWiden.Add(-1)
	}
	res.NativeDrops = walDropped.Load()
	if appendErr.Load() > 0 {
		res.Inconcl = fmt.Sprintf("%d appends failed for reasons other than WAL backpressure", appendErr.Load())
		return
	}

	// ---- bounded wait for quiescence (never decides a verdict by itself)
	produced := int64(sp.Entries)
	settled := false
	disturbed := false
	dl = time.Now().Add(20 * time.Second)
	for time.Now().Before(dl) {
		st := g.sender.Stats()
		rs := rcv.Stats()
		sess := px.Sessions()
		if sp.Mode == "honest" {
			if statI(rs, "total_errors") > 0 || len(sess) > 1 || (len(sess) == 1 && sess[0].ClosedBy() != "") {
				disturbed = true
				break
			}
			recv, dropped, sent := statI(st, "total_entries_received"), statI(st, "total_entries_dropped"), statI(st, "total_entries_sent")
			if recv == produced && sent+dropped == recv && int64(rec.Len()) == sent {
				settled = true
				break
			}
		} else {
			idle := time.Since(time.Unix(0, px.lastActivity())) > 150*time.Millisecond
			if statI(st, "buffer_used") == 0 && idle {
				settled = true
				break
			}
		}
		time.Sleep(2 * time.Millisecond)
	}
	if sp.Mode == "honest" && settled {
		// let a trailing checkpoint be judged by the reader
		time.Sleep(20 * time.Millisecond)
	}
	if disturbed {
		time.Sleep(60 * time.Millisecond) // collect a little more history for the report
	}
	st := g.sender.Stats()
	px.stopping.Store(true) // closes from here on are the harness' own
	if pxB != nil {
		pxB.stopping.Store(true)
	}
	_ = rcv.Stop() // waits for the receive loop: the apply log is final after this
	if rcvB != nil {
		_ = rcvB.Stop()
	}
	rs := rcv.Stats()
	px.stop()
	if pxB != nil {
		pxB.stop()
	}
	if !settled && !disturbed && sp.Mode == "honest" {
		res.Inconcl = fmt.Sprintf("no quiescence within 20s (received=%d sent=%d dropped=%d applied=%d)",
			statI(st, "total_entries_received"), statI(st, "total_entries_sent"), statI(st, "total_entries_dropped"), rec.Len())
		return
	}
	res.Dropped = statI(st, "total_entries_dropped")
	res.RecvErrors = statI(rs, "total_errors")
	if adv != nil {
		adv.mu.Lock()
		res.Landed = adv.landed
		res.AdvNote = adv.note
		adv.mu.Unlock()
	}
	res.ReaderLog = rlog.Lines()
	res.WriterLog = g.slog.Lines()
	evaluate(&res, sp, queued, rec.Snapshot(), px.Sessions(), adv, st)
	return
}

// ---------------------------------------------------------------- oracle

type rframe struct {
	Off   int64
	F     pframe
	Chunk int // index of the chunk that starts at Off and has the same length, else -1
}

// readerView re-parses the byte stream the proxy really wrote to the reader.
func readerView(s *session) []rframe {
	var stream []byte
	starts := map[int64]int{}
	base := int64(0)
	for i, c := range s.Chunks {
		if c.Label == "handshake" {
			base = c.Off + int64(len(c.Raw))
			continue
		}
		starts[c.Off] = i
		stream = append(stream, c.Raw...)
	}
	var out []rframe
	pos := 0
	for pos+5 <= len(stream) {
		n := int(binary.BigEndian.Uint32(stream[pos : pos+4]))
		if n < 1 || pos+4+n > len(stream) {
			break // the reader would be waiting for more bytes (or reject the length)
		}
		raw := stream[pos : pos+4+n]
		rf := rframe{Off: base + int64(pos), F: decodeFrame(raw), Chunk: -1}
		if ci, ok := starts[rf.Off]; ok && len(s.Chunks[ci].Raw) == len(raw) {
			rf.Chunk = ci
		}
		out = append(out, rf)
		pos += 4 + n
	}
	return out
}

func hx(h [32]byte) string { return hex.EncodeToString(h[:8]) }

// app is one applied entry attributed to the frame that carried it.
type app struct {
	Sess  int
	RF    rframe
	Label string
	SIdx  int
}

// attribute maps the apply log of one reader to the frames the proxy wrote to it:
// the entries applied on a connection are the first entry frames of that
// connection's byte stream (the reader handles a connection sequentially). A
// mismatch with the logged payload hashes is returned as bad.
func attribute(sessions []*session, log []appliedRec) (apps []app, firstConn map[string]any, bad map[string]any) {
	for i, s := range sessions {
		lo := s.AppliedAtAccept
		hi := len(log)
		if i+1 < len(sessions) {
			hi = sessions[i+1].AppliedAtAccept
		}
		var ents []rframe
		for _, rf := range readerView(s) {
			if rf.F.IsEntry {
				ents = append(ents, rf)
			}
		}
		for j := lo; j < hi; j++ {
			k := j - lo
			if k >= len(ents) || ents[k].F.Hash != log[j].Hash {
				bad := map[string]any{"session": s.Idx, "apply_index": j, "applied_head": log[j].Head,
					"entries_on_wire": len(ents), "applied_in_session": hi - lo}
				// Was this payload forwarded to the reader on ANOTHER of its connections? Then
				// the apply was merely attributed to the wrong connection (the split point is
				// "length of the apply log when the proxy accepted the connection", which an
				// apply of an already-read frame of the previous connection can overtake on a
				// loaded machine): the monitor cannot judge this reader, but nothing was
				// applied that was not on the wire.
				for _, o := range sessions {
					for _, rf := range readerView(o) {
						if rf.F.IsEntry && rf.F.Hash == log[j].Hash {
							bad["attribution_ambiguous_payload_was_forwarded_on_session"] = o.Idx
							return nil, nil, bad
						}
					}
				}
				return nil, nil, bad
			}
			a := app{Sess: s.Idx, RF: ents[k], Label: "desynced", SIdx: -1}
			if ents[k].Chunk >= 0 {
				a.Label = s.Chunks[ents[k].Chunk].Label
				a.SIdx = s.Chunks[ents[k].Chunk].SIdx
			}
			apps = append(apps, a)
		}
		if i == 0 {
			n := hi - lo
			var tail []uint64
			for k := n - 6; k < n; k++ {
				if k >= 0 && k < len(ents) {
					tail = append(tail, ents[k].F.Seq)
				}
			}
			firstConn = map[string]any{"entries_forwarded": len(ents), "entries_applied": n, "last_applied_sequences": tail}
			if n < len(ents) {
				firstConn["first_forwarded_entry_not_applied"] = ents[n].F.Seq
			}
		}
	}
	return apps, firstConn, nil
}

func evaluate(res *caseResult, sp caseSpec, queued map[[32]byte]*genEntry, log []appliedRec, sessions []*session, adv *adversary, st map[string]interface{}) {
	res.Applied = len(log)
	res.Sessions = len(sessions)
	add := func(sig string, d map[string]any) {
		d["case"] = sp
		res.Violations = append(res.Violations, viol{Sig: sig, Detail: d})
	}
	prefix := ""
	if sp.Mode == "adversary" {
		prefix = "adversary " + sp.Adv.Kind + ": "
	}

	// the writer's own wire output: is it in sequence order?
	type inv struct {
		Session int      `json:"session"`
		Pos     int      `json:"entry_pos"`
		Window  []uint64 `json:"sequences_around"`
	}
	var firstInv *inv
	for _, s := range sessions {
		var seqs []uint64
		for _, f := range s.S {
			if f.IsEntry {
				seqs = append(seqs, f.Seq)
			}
		}
		var max uint64
		for i, q := range seqs {
			if q <= max {
				res.Disorder++
				if firstInv == nil {
					lo, hi := i-6, i+4
					if lo < 0 {
						lo = 0
					}
					if hi > len(seqs) {
						hi = len(seqs)
					}
					firstInv = &inv{Session: s.Idx, Pos: i, Window: append([]uint64(nil), seqs[lo:hi]...)}
				}
			} else {
				max = q
			}
		}
	}

	// attribute applied entries to connections and to frames on the wire
	apps, firstConn, bad := attribute(sessions, log)
	if bad != nil {
		if _, amb := bad["attribution_ambiguous_payload_was_forwarded_on_session"]; amb {
			res.Inconcl = fmt.Sprintf("applied entries could not be attributed to connections (apply index %v): %v", bad["apply_index"], bad)
			return
		}
		add(sigWirePrefix, bad)
		return
	}

	// ---- rules over what was applied (both modes)
	seen := map[[32]byte]int{}
	var lastSeq uint64
	for i, a := range apps {
		ge := queued[a.RF.F.Hash]
		if sp.Mode == "adversary" {
			// identity: the (sequence, payload) pair must be one the writer sent on this
			// connection, carried by a frame that was not rewritten
			sent := false
			for _, f := range sessions[a.Sess].S {
				if f.IsEntry && f.Seq == a.RF.F.Seq && f.Hash == a.RF.F.Hash {
					sent = true
					break
				}
			}
			// provenance: a frame lifted from another session must never be applied,
			// even though its (sequence, payload) is one this writer produced
			if a.Label == "foreign" {
				add(prefix+"frame of another session applied", map[string]any{"apply_index": i, "sequence": a.RF.F.Seq, "session": a.Sess,
					"payload_hash": hx(a.RF.F.Hash)})
				continue
			}
			if ge == nil || !sent || a.Label == "altered" || a.Label == "desynced" {
				add(prefix+"altered entry applied", map[string]any{"apply_index": i, "sequence": a.RF.F.Seq, "session": a.Sess,
					"payload_head": log[i].Head, "payload_hash": hx(a.RF.F.Hash), "frame_label": a.Label,
					"payload_was_queued": ge != nil, "pair_sent_by_writer_on_this_connection": sent})
				continue
			}
		} else if ge == nil {
			add(sigNotQueued, map[string]any{"apply_index": i, "sequence": a.RF.F.Seq, "payload_head": log[i].Head})
			continue
		}
		if prev, dup := seen[a.RF.F.Hash]; dup {
			add(prefix+sigTwice, map[string]any{"apply_index": i, "first_apply_index": prev, "sequence": a.RF.F.Seq,
				"entry": fmt.Sprintf("p%d/n%d", ge.Producer, ge.N), "frame_label": a.Label})
			continue
		}
		seen[a.RF.F.Hash] = i
		if a.RF.F.Seq <= lastSeq {
			sig := sigHonestOrder
			if sp.Mode == "adversary" {
				sig = prefix + "entries applied out of sequence order"
			}
			add(sig, map[string]any{"apply_index": i, "sequence": a.RF.F.Seq, "previous_sequence": lastSeq, "frame_label": a.Label})
		} else {
			lastSeq = a.RF.F.Seq
		}
	}

	if sp.Mode == "honest" {
		recv := statI(st, "total_entries_received")
		if recv != int64(sp.Entries) {
			add(sigNotHanded, map[string]any{"appends": sp.Entries, "sender_received": recv})
		}
		closedBy := ""
		if len(sessions) > 0 {
			closedBy = sessions[0].ClosedBy()
		}
		if closedBy == "sender" && res.RecvErrors == 0 {
			// the writer side gave up first (observed: its 5 s write deadline expiring when
			// the whole process is starved of CPU) and the reader rejected nothing: a
			// timing event, not a statement about ordering or authentication
			res.Inconcl = fmt.Sprintf("writer closed the connection first without any reader-side rejection (sender received=%d sent=%d dropped=%d readers=%d; forwarded entries=%v applied=%d)",
				statI(st, "total_entries_received"), statI(st, "total_entries_sent"), res.Dropped, statI(st, "reader_count"), firstConn["entries_forwarded"], len(log)) +
				fmt.Sprintf("; writer_log=%q reader_log=%q", res.WriterLog, res.ReaderLog)
			res.Violations = nil
			return
		}
		broken := res.RecvErrors > 0 || len(sessions) > 1 || closedBy == "receiver"
		if broken {
			d := map[string]any{"receiver_total_errors": res.RecvErrors, "connections": len(sessions), "first_connection_closed_by": closedBy,
				"applied": len(log), "queued": len(queued), "sender_dropped": res.Dropped, "writer_wire_inversions": res.Disorder,
				"producers": sp.Producers, "first_connection": firstConn, "reader_log": res.ReaderLog, "writer_log": res.WriterLog}
			if firstInv != nil {
				d["first_inversion"] = firstInv
				add(sigOutOfOrder, d)
			} else {
				add(sigHealthyDrop, d)
			}
		} else {
			missing := len(queued) - len(seen)
			if int64(missing) != res.Dropped {
				var ex []string
				for h, ge := range queued {
					if _, ok := seen[h]; !ok && len(ex) < 5 {
						ex = append(ex, fmt.Sprintf("p%d/n%d", ge.Producer, ge.N))
					}
				}
				sort.Strings(ex)
				add(sigHonestMissing, map[string]any{"missing": missing, "sender_dropped": res.Dropped, "examples": ex, "applied": len(log)})
			}
		}
		return
	}

	// ---- adversary-only rules
	adv.mu.Lock()
	dropS, cpAt, asess := adv.dropSIdx, adv.cpChunkAt, adv.sessIdx
	adv.mu.Unlock()
	if dropS >= 0 && cpAt >= 0 && asess >= 0 && asess < len(sessions) {
		s := sessions[asess]
		if cpAt < len(s.Chunks) {
			cpOff := s.Chunks[cpAt].Off
			var after []uint64
			for _, a := range apps {
				if a.Sess == asess && a.RF.Off > cpOff {
					after = append(after, a.RF.F.Seq)
				}
			}
			if len(after) > 0 {
				if len(after) > 8 {
					after = after[:8]
				}
				add(prefix+"stream survived the checkpoint after a withheld entry (silent gap)", map[string]any{
					"withheld_sequence": s.S[dropS].Seq, "checkpoint_label": s.Chunks[cpAt].Label, "applied_after_checkpoint": after})
			}
		}
	}
}

// ---------------------------------------------------------------- check body

func checkC24(c *vlib.Ctx) {
	c.Rule("honest cases: 1-16 producer goroutines append 2000 unique payloads (random sizes, AppendRaw/AppendRawWithMeta mix) through a real wal.Writer -> replication hook -> Sender; " +
		"checkpoint interval 1-50, sender buffer 64/512/10000, two thirds with delay rules at repl.sender.after_seq; loopback proxy forwards untouched. " +
		"adversary cases: 400 entries, one scripted wire attack (15 kinds: flip payload/raw/length, bump sequence, strip tag, duplicate now/later, withhold (+forged / +replayed checkpoint), swap, splice from a second reader's session, replay/duplicate checkpoint) at a random entry index. " +
		"multi-reader cases: 2-5 real Receivers (plus, in two thirds, a raw reader draining ~150us per frame through 4 KiB socket buffers) on one Sender, 500-1000 entries from 1-4 producers; one or two of the readers are repeatedly removed (Sender.RemoveReader), cut (connection closed) or replaced by a new handshake under the same id while the stream runs (up to 400 events, they reconnect after 3 ms); an end-of-stream sentinel entry closes the run. " +
		"same-id re-handshake cases: one real Receiver behind the proxy, 1-8 writer goroutines append continuously; 1-3 times in a row the reader's connection is made half-open at the proxy (reader's end closed, writer's end left open and told nothing), so the Receiver's own reconnect performs the real handshake under the same id while the writer still holds the previous connection; the peer closes the writer's end of the abandoned connection before the new activation, after it, or never; after each activation the writers append 200-600 more entries and a sentinel. " +
		"distinct non-trivial = honest case with >=100 entries applied or a verdict, adversary case whose attack reached a live connection, multi-reader case with at least one disturbance event, re-handshake case with at least one observed activation")
	c.Assume("generator ground truth: the replicated payload of AppendRawWithMeta is [0x01][len16][db][payload], of AppendRaw the payload itself")
	c.Assume("the harness acceptor reproduces Coordinator.handleReplicateSync/AcceptReplicationConnection (HMAC + nonce check, PrepareReader, ack, ActivateReader); the hook wiring is copied from Coordinator.StartReplication")
	c.Assume("the reader is sequential per connection: entries applied on a connection are matched to the first entry frames of the byte stream the proxy wrote to it (checked, mismatch is reported)")
	c.Assume("the replicated timestamp field is neither authenticated nor applied by the reader; a wire change that leaves (sequence, payload) intact counts as benign")

	installWidening()
	defer verifhook.Clear(hookAfterSeq)

	if c.Replay != "" {
		replayC24(c)
		return
	}

	cases := genCases(c)
	if only := os.Getenv("VERIF_C24_CASE"); only != "" {
		// debugging aid: run one generated case repeatedly
		id, _ := strconv.Atoi(only)
		var sel []caseSpec
		for i := 0; i < 25; i++ {
			sel = append(sel, cases[id])
		}
		cases = sel
	}
	onlyMode := os.Getenv("VERIF_C24_MODE") // debugging aid: run one family only (honest | adversary | multi | rehs)
	if onlyMode != "" {
		var sel []caseSpec
		for _, sp := range cases {
			if sp.Mode == onlyMode {
				sel = append(sel, sp)
			}
		}
		cases = sel
	}
	results := make([]caseResult, len(cases))
	var wg sync.WaitGroup
	sem := make(chan struct{}, 6)
	for i := range cases {
		wg.Add(1)
		sem <- struct{}{}
		go func(i int) {
			defer wg.Done()
			defer func() { <-sem }()
			results[i] = runCase(cases[i])
		}(i)
	}
	wg.Wait()

	for _, r := range results {
		report(c, r)
	}
	c.Count("hook_after_seq_hits", verifhook.Hits(hookAfterSeq))
	c.Extra("rehandshake_same_id_cases", rehsOutcomes)
	pr := probeReplaceSameID()
	c.Extra("probe_rehandshake_same_id", pr)
	if b, _ := pr["new_connection_removed_by_writer"].(bool); b {
		c.Count("probe_rehandshake_same_id_new_connection_removed_by_writer", 1)
	}
	if onlyMode != "" {
		c.Floor(1)
		return
	}
	raceSubRun(c)
	c.Floor(c.N(100, 1800))
}

// rehsOutcomes: one line per same-id re-handshake case for the evidence (report is
// called sequentially).
var rehsOutcomes []map[string]any

func report(c *vlib.Ctx, r caseResult) {
	c.Eval()
	sp := r.Spec
	if r.Inconcl != "" {
		c.Inconclusive(fmt.Sprintf("case %d (%s): %s; case=%s", sp.ID, sp.Mode, r.Inconcl, vlib.JSON(sp)))
		c.Count("inconclusive_cases", 1)
		return
	}
	c.Count(sp.Mode+"_cases", 1)
	c.Count("entries_queued", int64(r.Queued))
	c.Count("entries_applied", int64(r.Applied))
	c.Count("sender_reported_dropped", r.Dropped)
	c.Count("connections", int64(r.Sessions))
	c.Count("receiver_rejections", r.RecvErrors)
	c.Count("writer_wire_inversions", int64(r.Disorder))
	if sp.Mode == "honest" {
		if r.Applied >= 100 || len(r.Violations) > 0 {
			c.Nontrivial(fmt.Sprintf("honest/%d/%d/%d/%d/%d", sp.Producers, sp.CPInterval, sp.BufSize, sp.MaxPayload, sp.Seed))
		}
		if r.RecvErrors > 0 || r.Sessions > 1 {
			c.Count("honest_cases_with_connection_drop", 1)
		}
	} else if sp.Mode == "rehs" {
		c.Count("rehs_rehandshakes_exercised", int64(r.RehsDone))
		c.Count("rehs_entries_checked_after_rehandshake", int64(r.RehsChecked))
		c.Count("rehs_old_connection_closed_"+sp.OldClose, 1)
		if r.Landed {
			c.Nontrivial(fmt.Sprintf("rehs/%d/%d/%s/%d/%d", sp.Producers, sp.Rehs, sp.OldClose, sp.PostEntries, sp.Seed))
		}
		out := "held"
		for _, v := range r.Violations {
			if v.Sig == sigRehsDrop {
				c.Count("rehs_new_connections_dropped_by_writer", 1)
			}
			out = v.Sig
		}
		rehsOutcomes = append(rehsOutcomes, map[string]any{"case": sp.ID, "writers": sp.Producers, "rehandshakes_planned": sp.Rehs,
			"rehandshakes_exercised": r.RehsDone, "old_connection_closed_by_peer": sp.OldClose, "entries_checked": r.RehsChecked,
			"connections": r.Sessions, "outcome": out})
	} else if sp.Mode == "multi" {
		c.Count("multi_reader_connections", int64(r.Sessions)) // 1 per untouched reader + 1 per re-attachment of a disturbed one
		c.Count("multi_reader_disturbance_events", int64(r.Events))
		if r.Landed {
			c.Nontrivial(fmt.Sprintf("multi/%d/%d/%v/%d/%d", sp.Readers, sp.Victims, sp.Slow, sp.CPInterval, sp.Seed))
			c.Count("multi_cases_with_disturbance", 1)
		}
	} else {
		if r.Landed {
			c.Count("attacks_landed", 1)
			c.Count("attack_"+sp.Adv.Kind, 1)
			c.Nontrivial(fmt.Sprintf("adv/%s/%d/%d/%d/%d", sp.Adv.Kind, sp.Adv.At, sp.Adv.Delta, sp.Adv.Bit, sp.Seed))
			if r.RecvErrors > 0 {
				c.Count("attacks_rejected_by_reader", 1)
			}
		} else {
			c.Count("attacks_not_landed", 1)
		}
	}
	if len(r.Violations) > 0 {
		c.Count("cases_with_violation_"+sp.Mode, 1)
	}
	for _, v := range r.Violations {
		c.Violation(v.Sig, v.Detail)
	}
	c.Sample(map[string]any{"case": sp.ID, "mode": sp.Mode, "producers": sp.Producers, "applied": r.Applied, "queued": r.Queued,
		"dropped": r.Dropped, "connections": r.Sessions, "receiver_rejections": r.RecvErrors, "landed": r.Landed, "note": r.AdvNote})
}

// replayC24 re-runs the generated inputs of a recorded case. The schedule is not
// part of the inputs, so the case is repeated a bounded number of times.
func replayC24(c *vlib.Ctx) {
	var d struct {
		Case caseSpec `json:"case"`
	}
	if err := vlib.LoadReplay(c.Replay, &d); err != nil {
		panic(err)
	}
	c.Floor(1)
	for i := 0; i < 25; i++ {
		r := runCase(d.Case)
		report(c, r)
		if len(r.Violations) > 0 {
			return
		}
	}
}
