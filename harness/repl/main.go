// Harness for WAL replication: C24 (ordered, gap-free, authenticated stream).
package main

import (
	"flag"
	"fmt"
	"os"

	"github.com/basekick-labs/arc/internal/zzverif/vlib"
)

func main() {
	prop := flag.String("prop", "", "property id")
	flag.String("replay", "", "replay file")
	raceChild := flag.Bool("racechild", false, "internal: run the concurrent workload under the race detector and print a summary")
	flag.Parse()
	if *raceChild {
		raceChildMain()
		return
	}
	switch *prop {
	case "C24":
		vlib.Main("C24", "exploration", checkC24)
	default:
		fmt.Println("unknown property", *prop)
		os.Exit(2)
	}
}
