package main

// Frame-aware TCP proxy between a Receiver and the rig's acceptor. The
// reader->writer direction (handshake request, acks) is copied untouched. The
// writer->reader direction is parsed with an independent reader of the wire format
// [4-byte big-endian length][1-byte type][JSON] and either forwarded untouched
// (honest wire) or handed to an adversary script.

import (
	"bytes"
	"crypto/sha256"
	"encoding/binary"
	"encoding/hex"
	"encoding/json"
	"fmt"
	"hash"
	"io"
	"net"
	"sync"
	"sync/atomic"
	"time"
)

const (
	typEntry      = 0x10
	typCheckpoint = 0x14
)

// wireEntry / wireCheckpoint: the harness' own view of the JSON bodies.
type wireEntry struct {
	Seq     uint64 `json:"seq"`
	TS      uint64 `json:"ts"`
	Payload []byte `json:"payload"`
	Tag     string `json:"tag,omitempty"`
}

type wireCheckpoint struct {
	Hash    string `json:"cumulative_payload_hash"`
	LastSeq uint64 `json:"last_seq"`
	Nonce   string `json:"nonce"`
	Sender  string `json:"sender_node_id"`
	Cluster string `json:"cluster_name"`
	TS      int64  `json:"timestamp"`
	HMAC    string `json:"hmac"`
}

// pframe is a parsed frame.
type pframe struct {
	Typ     byte
	Raw     []byte // whole frame including the 5-byte header
	IsEntry bool   // type 0x10 and the body decodes
	Seq     uint64
	Hash    [32]byte // sha256(payload)
	Tag     string
	IsCP    bool
	CPLast  uint64
}

func buildFrame(typ byte, body []byte) []byte {
	out := make([]byte, 5+len(body))
	binary.BigEndian.PutUint32(out[:4], uint32(1+len(body)))
	out[4] = typ
	copy(out[5:], body)
	return out
}

func decodeFrame(raw []byte) pframe {
	f := pframe{Raw: raw}
	if len(raw) < 5 {
		return f
	}
	f.Typ = raw[4]
	body := raw[5:]
	switch f.Typ {
	case typEntry:
		var e wireEntry
		if json.Unmarshal(body, &e) == nil {
			f.IsEntry = true
			f.Seq = e.Seq
			f.Hash = sha256.Sum256(e.Payload)
			f.Tag = e.Tag
		}
	case typCheckpoint:
		var c wireCheckpoint
		if json.Unmarshal(body, &c) == nil {
			f.IsCP = true
			f.CPLast = c.LastSeq
		}
	}
	return f
}

func readFrame(r io.Reader) ([]byte, error) {
	var hdr [4]byte
	if _, err := io.ReadFull(r, hdr[:]); err != nil {
		return nil, err
	}
	n := binary.BigEndian.Uint32(hdr[:])
	if n < 1 || n > 200<<20 {
		return nil, io.ErrUnexpectedEOF
	}
	raw := make([]byte, 4+int(n))
	copy(raw, hdr[:])
	if _, err := io.ReadFull(r, raw[4:]); err != nil {
		return nil, err
	}
	return raw, nil
}

// chunk is one write of the proxy towards the reader.
type chunk struct {
	Off   int64
	Raw   []byte
	Label string // handshake | genuine | benign | altered | dup | delayed | foreign | forged-cp | replayed-cp | dup-cp
	SIdx  int    // index into session.S for frames that originate from this session, else -1
}

type session struct {
	Idx             int
	AppliedAtAccept int // recorder length when this connection was accepted

	mu       sync.Mutex
	S        []pframe // frames received from the writer on this connection (handshake ack excluded)
	Chunks   []chunk
	off      int64
	closedBy string // receiver | sender | harness
	rc, sc   net.Conn
	lastAct  atomic.Int64 // unix nano of last forwarded frame

	// half-open simulation (same-id re-handshake family): the reader side is closed,
	// the writer side is left open and whatever the writer still sends is discarded
	blackholed atomic.Bool
	discarded  atomic.Int64
}

// markClosed records who ended the connection first; true if this call was the first.
func (s *session) markClosed(by string) bool {
	s.mu.Lock()
	defer s.mu.Unlock()
	if s.closedBy == "" {
		s.closedBy = by
		return true
	}
	return false
}

func (s *session) ClosedBy() string {
	s.mu.Lock()
	defer s.mu.Unlock()
	return s.closedBy
}

type proxy struct {
	ln       net.Listener
	upstream string
	rec      *recorder
	adv      *adversary // nil: honest wire
	tap      *tap       // non-nil: publish forwarded entry frames (second-session capture)

	mu       sync.Mutex
	sessions []*session
	stopping atomic.Bool
	wg       sync.WaitGroup

	ev atomic.Pointer[func(string)] // optional: ordered event trace of the case (accepts, first close of a connection)
}

func (p *proxy) event(format string, a ...any) {
	if f := p.ev.Load(); f != nil {
		(*f)(fmt.Sprintf(format, a...))
	}
}

func newProxy(upstream string, rec *recorder, adv *adversary, tp *tap) (*proxy, error) {
	ln, err := net.Listen("tcp", "127.0.0.1:0")
	if err != nil {
		return nil, err
	}
	p := &proxy{ln: ln, upstream: upstream, rec: rec, adv: adv, tap: tp}
	go p.acceptLoop()
	return p, nil
}

func (p *proxy) addr() string { return p.ln.Addr().String() }

func (p *proxy) acceptLoop() {
	for {
		rc, err := p.ln.Accept()
		if err != nil {
			return
		}
		if p.stopping.Load() {
			rc.Close()
			continue
		}
		sc, err := net.DialTimeout("tcp", p.upstream, 5*time.Second)
		if err != nil {
			rc.Close()
			continue
		}
		s := &session{rc: rc, sc: sc}
		if p.rec != nil {
			s.AppliedAtAccept = p.rec.Len()
		}
		p.mu.Lock()
		s.Idx = len(p.sessions)
		p.sessions = append(p.sessions, s)
		p.mu.Unlock()
		p.event("proxy: reader opened connection #%d", s.Idx)
		p.wg.Add(2)
		go p.up(s)
		go p.down(s)
	}
}

func (p *proxy) closer(s *session, by string) {
	if p.stopping.Load() {
		by = "harness"
	}
	if s.markClosed(by) {
		p.event("proxy: connection #%d ended first by the %s side", s.Idx, by)
	}
	s.rc.Close()
	if s.blackholed.Load() && by != "sender" {
		return // half-open: the writer keeps its end until it closes it itself (or the harness does)
	}
	s.sc.Close()
}

// up: reader -> writer, untouched.
func (p *proxy) up(s *session) {
	defer p.wg.Done()
	buf := make([]byte, 32<<10)
	for {
		n, err := s.rc.Read(buf)
		if n > 0 {
			if _, werr := s.sc.Write(buf[:n]); werr != nil {
				p.closer(s, "sender") // the writer side no longer accepts bytes
				return
			}
		}
		if err != nil {
			p.closer(s, "receiver") // the reader side ended (EOF / reset)
			return
		}
	}
}

// down: writer -> reader through the adversary.
func (p *proxy) down(s *session) {
	defer p.wg.Done()
	first := true
	for {
		raw, err := readFrame(s.sc)
		if err != nil {
			p.closer(s, "sender")
			return
		}
		if s.blackholed.Load() {
			s.discarded.Add(1) // the reader is gone; the writer's frames vanish
			continue
		}
		var outs []chunk
		if first {
			first = false
			outs = []chunk{{Raw: raw, Label: "handshake", SIdx: -1}}
		} else {
			f := decodeFrame(raw)
			s.mu.Lock()
			sidx := len(s.S)
			s.S = append(s.S, f)
			s.mu.Unlock()
			if p.tap != nil && f.IsEntry {
				p.tap.put(f.Seq, raw)
			}
			if p.adv != nil {
				outs = p.adv.process(s, sidx, f)
			} else {
				outs = []chunk{{Raw: raw, Label: "genuine", SIdx: sidx}}
			}
		}
		for _, c := range outs {
			s.mu.Lock()
			c.Off = s.off
			s.off += int64(len(c.Raw))
			s.Chunks = append(s.Chunks, c)
			s.mu.Unlock()
			_ = s.rc.SetWriteDeadline(time.Now().Add(10 * time.Second))
			if _, err := s.rc.Write(c.Raw); err != nil {
				if s.blackholed.Load() {
					break // keep draining the writer side
				}
				p.closer(s, "receiver")
				return
			}
			s.lastAct.Store(time.Now().UnixNano())
		}
	}
}

// blackholeCurrent turns the newest open connection of this proxy into a
// half-open one: the reader's end is closed (the reader notices a dead link, as it
// would after a read timeout), the writer's end stays open and nothing tells the
// writer. The session is returned so that the caller can close the writer's end
// later (closeUpstream) or never.
func (p *proxy) blackholeCurrent() *session {
	ss := p.Sessions()
	if len(ss) == 0 {
		return nil
	}
	s := ss[len(ss)-1]
	if s.ClosedBy() != "" {
		return nil
	}
	s.blackholed.Store(true)
	s.markClosed("harness")
	s.rc.Close()
	return s
}

// closeUpstream closes the writer's end of a blackholed session (the peer finally
// going away: RST / FIN reaching the writer).
func (p *proxy) closeUpstream(s *session) { s.sc.Close() }

func (p *proxy) Sessions() []*session {
	p.mu.Lock()
	defer p.mu.Unlock()
	return append([]*session(nil), p.sessions...)
}

// lastActivity returns the time of the last forwarded frame over all sessions.
func (p *proxy) lastActivity() int64 {
	var m int64
	for _, s := range p.Sessions() {
		if v := s.lastAct.Load(); v > m {
			m = v
		}
	}
	return m
}

func (p *proxy) stop() {
	p.stopping.Store(true)
	p.ln.Close()
	for _, s := range p.Sessions() {
		s.markClosed("harness")
		s.rc.Close()
		s.sc.Close()
	}
	p.wg.Wait()
}

// tap holds the entry frames of a second, independent session (another reader
// of the same writer), indexed by sequence: splice material for the adversary.
type tap struct {
	mu sync.Mutex
	m  map[uint64][]byte
}

func newTap() *tap { return &tap{m: map[uint64][]byte{}} }

func (t *tap) put(seq uint64, raw []byte) {
	t.mu.Lock()
	t.m[seq] = raw
	t.mu.Unlock()
}

func (t *tap) get(seq uint64, wait time.Duration) []byte {
	dl := time.Now().Add(wait)
	for {
		t.mu.Lock()
		r := t.m[seq]
		t.mu.Unlock()
		if r != nil || time.Now().After(dl) {
			return r
		}
		time.Sleep(time.Millisecond)
	}
}

// ---------------------------------------------------------------- adversary

// advSpec is the deterministic description of one wire attack.
type advSpec struct {
	Kind  string `json:"kind"`
	At    int    `json:"at"`    // acts on the At-th entry frame (0-based) of a connection
	Delta int    `json:"delta"` // kind-specific small integer (sequence bump, replay distance)
	Bit   int    `json:"bit"`   // kind-specific bit/byte selector
}

var advKinds = []string{
	"flip-payload", "flip-raw", "flip-len", "alter-seq", "strip-tag-alter",
	"dup-now", "dup-later", "drop", "drop-forge-cp", "drop-replay-cp",
	"swap", "splice-insert", "splice-replace", "replay-cp", "dup-cp",
}

// adversary acts once per case, on the first connection whose entry count
// reaches spec.At.
type adversary struct {
	spec advSpec
	tap  *tap

	mu        sync.Mutex
	fired     bool
	landed    bool // the crafted / withheld frame really went out (or was withheld) on a live connection
	sessIdx   int  // connection it acted on
	entries   map[int]int
	cum       map[int]*cumState // per connection: running hash of forwarded payloads
	lastCP    map[int][]byte
	held      []byte // swap: frame being delayed
	heldSIdx  int
	dupRaw    []byte // dup-later
	dupLeft   int
	wantCP    string // "", "forge", "replay", "dup": pending action on the next checkpoint
	dropSIdx  int    // S index of the withheld frame (-1 none)
	cpChunkAt int    // number of chunks emitted on that connection before the first checkpoint after the drop (-1 none)
	note      string
}

type cumState struct {
	h       hash.Hash
	lastSeq uint64
}

func newAdversary(spec advSpec, tp *tap) *adversary {
	return &adversary{spec: spec, tap: tp, entries: map[int]int{}, cum: map[int]*cumState{}, lastCP: map[int][]byte{},
		dropSIdx: -1, cpChunkAt: -1, sessIdx: -1}
}

func reencodeEntry(e wireEntry) []byte {
	b, _ := json.Marshal(e)
	return buildFrame(typEntry, b)
}

func classify(orig pframe, mutated []byte) string {
	m := decodeFrame(mutated)
	if len(mutated) == len(orig.Raw) && bytes.Equal(mutated[:4], orig.Raw[:4]) && m.IsEntry && m.Seq == orig.Seq && m.Hash == orig.Hash {
		return "benign" // same (sequence, payload): nothing the reader applies was changed
	}
	return "altered"
}

func (a *adversary) process(s *session, sidx int, f pframe) []chunk {
	a.mu.Lock()
	defer a.mu.Unlock()
	genuine := chunk{Raw: f.Raw, Label: "genuine", SIdx: sidx}
	cs := a.cum[s.Idx]
	if cs == nil {
		cs = &cumState{h: sha256.New()}
		a.cum[s.Idx] = cs
	}
	feed := func(raw []byte) { // track what the reader's running hash would be
		var e wireEntry
		if len(raw) > 5 && json.Unmarshal(raw[5:], &e) == nil {
			cs.h.Write(e.Payload)
			cs.lastSeq = e.Seq
		}
	}
	out := []chunk{}
	emit := func(c chunk) {
		if len(c.Raw) > 4 && c.Raw[4] == typEntry {
			feed(c.Raw)
		}
		out = append(out, c)
	}

	// pending actions of an attack already under way on this connection
	if a.fired && s.Idx == a.sessIdx {
		if a.held != nil { // swap: release the delayed frame after this one
			emit(genuine)
			emit(chunk{Raw: a.held, Label: "delayed", SIdx: a.heldSIdx})
			a.held = nil
			a.landed = true
			if f.IsCP {
				a.lastCP[s.Idx] = f.Raw
			}
			return out
		}
		if a.dupRaw != nil && f.IsEntry {
			a.dupLeft--
			emit(genuine)
			if a.dupLeft <= 0 {
				emit(chunk{Raw: a.dupRaw, Label: "dup", SIdx: -1})
				a.dupRaw = nil
				a.landed = true
			}
			return out
		}
		if f.IsCP && a.wantCP != "" {
			want := a.wantCP
			a.wantCP = ""
			// the checkpoint that must expose the gap: the first one after the withheld
			// entry that the writer signed for a later state (genuine), or the
			// adversary's forgery of it. A replayed older checkpoint that still matches
			// the reader's state proves nothing about later entries and is not counted;
			// the next genuine one is.
			if a.dropSIdx >= 0 && a.cpChunkAt < 0 && (want == "mark" || want == "forge" || a.lastCP[s.Idx] == nil) {
				s.mu.Lock()
				a.cpChunkAt = len(s.Chunks) + len(out)
				s.mu.Unlock()
			}
			switch want {
			case "forge":
				var c wireCheckpoint
				_ = json.Unmarshal(f.Raw[5:], &c)
				c.Hash = hex.EncodeToString(cs.h.Sum(nil))
				c.LastSeq = cs.lastSeq
				b, _ := json.Marshal(c)
				emit(chunk{Raw: buildFrame(typCheckpoint, b), Label: "forged-cp", SIdx: -1})
			case "replay":
				if prev := a.lastCP[s.Idx]; prev != nil {
					emit(chunk{Raw: prev, Label: "replayed-cp", SIdx: -1})
					a.wantCP = "mark"
				} else {
					emit(genuine)
				}
			case "dup":
				emit(genuine)
				emit(chunk{Raw: f.Raw, Label: "dup-cp", SIdx: -1})
				a.landed = true
			case "mark":
				emit(genuine)
			}
			a.lastCP[s.Idx] = f.Raw
			return out
		}
	}

	if f.IsCP {
		a.lastCP[s.Idx] = f.Raw
	}
	if !f.IsEntry {
		emit(genuine)
		return out
	}
	n := a.entries[s.Idx]
	a.entries[s.Idx] = n + 1
	if a.fired || n != a.spec.At {
		emit(genuine)
		return out
	}

	// ---- the attack
	a.fired = true
	a.sessIdx = s.Idx
	var e wireEntry
	_ = json.Unmarshal(f.Raw[5:], &e)
	switch a.spec.Kind {
	case "flip-payload":
		if len(e.Payload) == 0 {
			emit(genuine)
			break
		}
		p := append([]byte(nil), e.Payload...)
		i := a.spec.Bit % (len(p) * 8)
		p[i/8] ^= 1 << (i % 8)
		e.Payload = p
		emit(chunk{Raw: reencodeEntry(e), Label: "altered", SIdx: -1})
		a.landed = true
	case "flip-raw":
		m := append([]byte(nil), f.Raw...)
		i := a.spec.Bit % ((len(m) - 4) * 8)
		m[4+i/8] ^= 1 << (i % 8)
		emit(chunk{Raw: m, Label: classify(f, m), SIdx: -1})
		a.landed = true
	case "flip-len":
		m := append([]byte(nil), f.Raw...)
		m[3] ^= 1 << (a.spec.Bit % 4)
		emit(chunk{Raw: m, Label: "altered", SIdx: -1})
		a.landed = true
	case "alter-seq":
		e.Seq += uint64(a.spec.Delta)
		emit(chunk{Raw: reencodeEntry(e), Label: "altered", SIdx: -1})
		a.landed = true
	case "strip-tag-alter":
		e.Tag = ""
		if len(e.Payload) > 0 {
			p := append([]byte(nil), e.Payload...)
			p[a.spec.Bit%len(p)] ^= 0x01
			e.Payload = p
		} else {
			e.Payload = []byte{0x41}
		}
		emit(chunk{Raw: reencodeEntry(e), Label: "altered", SIdx: -1})
		a.landed = true
	case "dup-now":
		emit(genuine)
		emit(chunk{Raw: f.Raw, Label: "dup", SIdx: -1})
		a.landed = true
	case "dup-later":
		emit(genuine)
		a.dupRaw = f.Raw
		a.dupLeft = a.spec.Delta
	case "drop":
		a.dropSIdx = sidx
		a.wantCP = "mark"
		a.landed = true
	case "drop-forge-cp":
		a.dropSIdx = sidx
		a.wantCP = "forge"
		a.landed = true
	case "drop-replay-cp":
		a.dropSIdx = sidx
		a.wantCP = "replay"
		a.landed = true
	case "swap":
		a.held = f.Raw
		a.heldSIdx = sidx
	case "splice-insert", "splice-replace":
		want := f.Seq
		if a.spec.Kind == "splice-insert" {
			want += uint64(a.spec.Delta) // a frame of the other session that is not behind this one
		}
		var foreign []byte
		if a.tap != nil {
			foreign = a.tap.get(want, 400*time.Millisecond)
			if foreign == nil && want != f.Seq {
				foreign = a.tap.get(f.Seq, 200*time.Millisecond)
			}
		}
		if foreign == nil {
			a.note = "no frame of the other session available"
			emit(genuine)
			break
		}
		emit(chunk{Raw: foreign, Label: "foreign", SIdx: -1})
		if a.spec.Kind == "splice-insert" {
			emit(genuine)
		}
		a.landed = true
	case "replay-cp":
		emit(genuine)
		if prev := a.lastCP[s.Idx]; prev != nil {
			emit(chunk{Raw: prev, Label: "replayed-cp", SIdx: -1})
			a.landed = true
		} else {
			a.note = "no checkpoint seen before the trigger"
		}
	case "dup-cp":
		emit(genuine)
		a.wantCP = "dup"
	default:
		emit(genuine)
	}
	return out
}

// cutCurrent closes the newest connection of this proxy (both directions), as a
// network failure or a reader hanging up would. Returns false if there is none
// open.
func (p *proxy) cutCurrent() bool {
	ss := p.Sessions()
	if len(ss) == 0 {
		return false
	}
	s := ss[len(ss)-1]
	if s.ClosedBy() != "" {
		return false
	}
	s.markClosed("harness")
	s.rc.Close()
	s.sc.Close()
	return true
}
