package main

// Race-detector sub-run: the plain binary executes the -race build of this same
// harness on a reduced honest workload and classifies the reports.

import (
	"encoding/json"
	"fmt"
	"os"
	"os/exec"
	"path/filepath"
	"regexp"
	"sort"
	"strconv"
	"strings"
	"time"

	"github.com/basekick-labs/arc/internal/zzverif/vlib"
)

type raceChildOut struct {
	Cases      int   `json:"cases"`
	Applied    int   `json:"applied"`
	Queued     int   `json:"queued"`
	Inconcl    int   `json:"inconclusive"`
	Violations int   `json:"violations"`
	HookHits   int64 `json:"hook_hits"`
}

func raceChildMain() {
	installWidening()
	seed, _ := strconv.ParseUint(os.Getenv("VERIF_SEED"), 10, 64)
	n := 4
	if os.Getenv("VERIF_TIER") == "thorough" {
		n = 16
	}
	out := raceChildOut{}
	for i := 0; i < n; i++ {
		sp := caseSpec{ID: 900000 + i, Mode: "honest", Producers: []int{16, 8, 4, 2}[i%4], Entries: 600, CPInterval: []int{1, 7, 50, 13}[i%4],
			BufSize: []int{10000, 64}[i%2], MaxPayload: 512, Seed: seed*1000 + uint64(i), Widen: i%2 == 0}
		r := runCase(sp)
		out.Cases++
		out.Applied += r.Applied
		out.Queued += r.Queued
		if r.Inconcl != "" {
			out.Inconcl++
		}
		out.Violations += len(r.Violations)
	}
	for i := 0; i < n/2; i++ {
		sp := caseSpec{ID: 910000 + i, Mode: "multi", Producers: 2, Entries: 400, CPInterval: 5, BufSize: 10000, MaxPayload: 256,
			Seed: seed*1000 + 500 + uint64(i), Readers: 3 + i%2, Victims: 1, Slow: i%2 == 0, MaxEvents: 200}
		r := runCase(sp)
		out.Cases++
		out.Applied += r.Applied
		out.Queued += r.Queued
		if r.Inconcl != "" {
			out.Inconcl++
		}
		out.Violations += len(r.Violations)
	}
	for i := 0; i < (n+3)/4; i++ {
		sp := caseSpec{ID: 920000 + i, Mode: "rehs", Producers: []int{4, 1, 8, 2}[i%4], CPInterval: 5, BufSize: 10000, MaxPayload: 256,
			Seed: seed*1000 + 800 + uint64(i), Rehs: 2, OldClose: []string{"never", "before", "after"}[i%3], PostEntries: 200}
		r := runCase(sp)
		out.Cases++
		out.Applied += r.Applied
		out.Queued += r.Queued
		if r.Inconcl != "" {
			out.Inconcl++
		}
		out.Violations += len(r.Violations)
	}
	b, _ := json.Marshal(out)
	fmt.Println("RACECHILD " + string(b))
}

// pathFuncs: functions on the replication data path. A data race whose two
// accesses are both in these is a race on the sequence / queue / stream state.
var raceDataPath = regexp.MustCompile(`replication\.\(\*Sender\)\.(Replicate|distributionLoop|broadcastEntry|sendToReader|emitCheckpointLocked|RemoveReader|ActivateReader|PrepareReader|receiveLoop)|replication\.\(\*Receiver\)\.(receiveLoop|applyEntry|ackLoop)|wal\.\(\*Writer\)\.(AppendRaw|AppendRawWithMeta|Append)\b`)

var raceFrame = regexp.MustCompile(`^\s{2}(\S+)\(`)

func raceSubRun(c *vlib.Ctx) {
	bin := os.Getenv("VERIF_BIN_RACE")
	if bin == "" {
		c.Count("race_subrun_skipped", 1)
		return
	}
	if _, err := os.Stat(bin); err != nil {
		c.Count("race_subrun_skipped", 1)
		return
	}
	dir := vlib.TempDir("replrace")
	defer os.RemoveAll(dir)
	cmd := exec.Command(bin, "-prop", "C24", "-racechild")
	cmd.Env = append(os.Environ(), "GORACE=halt_on_error=0 log_path="+filepath.Join(dir, "race"))
	done := make(chan struct{})
	var outB []byte
	var err error
	go func() { outB, err = cmd.CombinedOutput(); close(done) }()
	select {
	case <-done:
	case <-time.After(5 * time.Minute):
		_ = cmd.Process.Kill()
		<-done
		c.Inconclusive("race sub-run exceeded 5 minutes")
		return
	}
	var child raceChildOut
	got := false
	for _, line := range strings.Split(string(outB), "\n") {
		if strings.HasPrefix(line, "RACECHILD ") {
			got = json.Unmarshal([]byte(strings.TrimPrefix(line, "RACECHILD ")), &child) == nil
		}
	}
	if !got {
		c.Inconclusive(fmt.Sprintf("race sub-run produced no summary (err=%v)", err))
		return
	}
	c.Count("race_subrun_cases", int64(child.Cases))
	c.Count("race_subrun_entries_applied", int64(child.Applied))

	files, _ := filepath.Glob(filepath.Join(dir, "race*"))
	type rep struct {
		key  string
		text string
		path bool
	}
	seen := map[string]rep{}
	total := 0
	for _, f := range files {
		b, _ := os.ReadFile(f)
		for _, blk := range strings.Split(string(b), "==================") {
			if !strings.Contains(blk, "WARNING: DATA RACE") {
				continue
			}
			total++
			// first frame of each access stack
			var tops []string
			lines := strings.Split(blk, "\n")
			for i, ln := range lines {
				if (strings.Contains(ln, " by goroutine ") || strings.Contains(ln, " by main goroutine")) &&
					(strings.HasPrefix(ln, "Write at") || strings.HasPrefix(ln, "Read at") || strings.HasPrefix(ln, "Previous write at") || strings.HasPrefix(ln, "Previous read at")) {
					// first arc frame below (skip runtime / stdlib frames)
					top := ""
					for j := i + 1; j < len(lines) && strings.TrimSpace(lines[j]) != ""; j += 2 {
						if m := raceFrame.FindStringSubmatch(lines[j]); m != nil {
							if top == "" {
								top = m[1]
							}
							if strings.Contains(m[1], "basekick-labs/arc/") {
								top = m[1]
								break
							}
						}
					}
					tops = append(tops, top)
				}
			}
			sort.Strings(tops)
			key := strings.Join(tops, " <-> ")
			key = strings.ReplaceAll(key, "github.com/basekick-labs/arc/internal/", "")
			if _, ok := seen[key]; ok {
				continue
			}
			onPath := len(tops) >= 2
			for _, t := range tops {
				if !raceDataPath.MatchString(t) {
					onPath = false
				}
			}
			seen[key] = rep{key: key, text: blk, path: onPath}
		}
	}
	c.Count("race_reports_total", int64(total))
	c.Count("race_reports_distinct", int64(len(seen)))
	keys := make([]string, 0, len(seen))
	for k := range seen {
		keys = append(keys, k)
	}
	sort.Strings(keys)
	c.Extra("race_reports", keys)
	for _, k := range keys {
		r := seen[k]
		if strings.Contains(k, "zzverif/") && !strings.Contains(k, "cluster/") && !strings.Contains(k, "wal.") {
			c.Count("race_reports_harness_only", 1)
			continue
		}
		if r.path {
			txt := r.text
			if len(txt) > 6000 {
				txt = txt[:6000]
			}
			c.Violation("data race on the replication path: "+k, map[string]any{"report": txt})
		} else {
			c.Count("race_reports_off_path", 1)
		}
	}
}
