package main

// adapter: the harness's SyncTransport. It is the "wire" between the real spoke Agent
// and the real hub objects: Reconcile calls Reconciler.Reconcile, PutFile calls
// Receiver.Receive, with the same request/answer mapping as HTTPTransport + the
// /api/v1/sync handlers (only the content-describing fields of the ledger entry cross
// the wire; hub errors come back as opaque status errors). Per call it applies the one
// scripted fault addressed to it.

import (
	"bytes"
	"context"
	"errors"
	"fmt"
	"io"
	"os"
	"path/filepath"
	"strings"
	"sync"

	"github.com/basekick-labs/arc/internal/edgesync"
	"github.com/basekick-labs/arc/internal/storage"
)

type adapter struct {
	mu    sync.Mutex
	w     *world
	coord *coordinator // family H only: forces the overlap of concurrent PutFile calls
}

var _ edgesync.SyncTransport = (*adapter)(nil)

func (a *adapter) begin(on string) (*runState, *fault, error) {
	w := a.w
	// the hub has not changed since the last observation, so the transitions logged
	// since then are judged against that observation
	w.drainLog()
	r := w.run
	if r == nil {
		return nil, nil, errors.New("verif: transport used outside a run")
	}
	if r.crashed {
		return r, nil, errSpokeDead
	}
	r.calls++
	var f *fault
	if on == "rec" {
		f = r.faultFor("rec", r.recN)
		r.recN++
		w.cnt["transport_calls_reconcile"]++
	} else {
		f = r.faultFor("put", r.putN)
		r.putN++
		w.cnt["transport_calls_put"]++
	}
	return r, f, nil
}

func (a *adapter) crash(r *runState, when string) {
	a.w.tracef("  SPOKE CRASH %s", when)
	r.crashed = true
	r.cancel() // every later ledger write of this process fails: nothing more is persisted
}

func (a *adapter) injected(f *fault) {
	a.w.fired++
	a.w.cnt["fault "+f.Kind]++
}

func wireErr(op string, err error) error {
	// what HTTPTransport.statusError would produce: the hub's error identity is lost
	switch {
	case errors.Is(err, storage.ErrResumeNotSupported):
		return fmt.Errorf("edgesync: hub cannot resume: resume not supported by this hub's storage backend")
	case errors.Is(err, edgesync.ErrReceiveInternal):
		return fmt.Errorf("edgesync: %s failed with 503: hub temporarily unavailable", op)
	default:
		return fmt.Errorf("edgesync: %s failed with 400: %s", op, err.Error())
	}
}

var errLost = errors.New("edgesync: file request: connection reset by peer (verif: message lost)")

// ── Reconcile ───────────────────────────────────────────────────────────

func (a *adapter) Reconcile(ctx context.Context, hub string, pending []*edgesync.LedgerEntry) (*edgesync.ReconcileResult, error) {
	a.mu.Lock()
	defer a.mu.Unlock()
	w := a.w
	r, f, err := a.begin("rec")
	if err != nil {
		return nil, err
	}
	kind := ""
	if f != nil {
		kind = f.Kind
		for _, e := range pending {
			if kind != "vanish" {
				w.touch(e.Path, "reconcile "+f.shape())
			}
		}
	}
	w.tracef("  reconcile(%d entries) fault=%s", len(pending), orNone(kind))
	see := func(s string) {
		for _, e := range pending {
			w.lastSeen[e.Path] = s
		}
	}

	switch kind {
	case "crash-before":
		a.injected(f)
		a.crash(r, "before the reconcile request left")
		return nil, errSpokeDead
	case "drop-before":
		a.injected(f)
		see("reconcile error (request lost)")
		return nil, errLost
	case "too-large":
		a.injected(f)
		see("reconcile refused as too large")
		return nil, &edgesync.ReconcileTooLargeError{MaxEntries: 1}
	case "hub-exists":
		w.hubFS.arm(fsRule{Op: "exists", Mode: "error"})
	case "hub-index-forget":
		w.setHubSwitch("fail_forget", true)
	}

	entries := make([]edgesync.ReconcileEntry, 0, len(pending))
	for _, e := range pending {
		entries = append(entries, edgesync.ReconcileEntry{Path: e.Path, SHA256: e.SHA256, SizeBytes: e.SizeBytes})
	}
	res, herr := w.reconciler.Reconcile(context.Background(), spokeID, entries)

	switch kind {
	case "hub-exists":
		if w.hubFS.disarm() {
			a.injected(f)
		}
	case "hub-index-forget":
		w.setHubSwitch("fail_forget", false)
		if herr != nil && strings.Contains(herr.Error(), "verif: injected") {
			a.injected(f)
		}
	}
	w.observeHub("after reconcile")

	switch kind {
	case "crash-after":
		a.injected(f)
		a.crash(r, "after the hub answered the reconcile, before the spoke read the answer")
		return nil, errSpokeDead
	case "drop-after":
		a.injected(f)
		see("reconcile error (answer lost)")
		return nil, errLost
	}
	if herr != nil {
		w.tracef("    hub: error %v", herr)
		if errors.Is(herr, edgesync.ErrReconcileTooLarge) {
			see("reconcile refused as too large")
			return nil, &edgesync.ReconcileTooLargeError{MaxEntries: w.reconciler.MaxEntries()}
		}
		see("reconcile error (hub error)")
		return nil, wireErr("reconcile", herr)
	}
	w.tracef("    hub: missing=%v present=%v conflicts=%d", res.Missing, res.Present, len(res.Conflicts))
	for _, p := range res.Missing {
		w.lastSeen[p] = "reconcile: missing"
	}
	for _, p := range res.Present {
		w.lastSeen[p] = "reconcile: present"
	}
	for _, c := range res.Conflicts {
		w.lastSeen[c.Path] = "reconcile: conflict"
	}
	if kind == "vanish" {
		p := w.paths[f.Target%len(w.paths)]
		if w.spokeHas(p) {
			a.injected(f)
			w.tracef("    spoke file %s vanishes between reconcile and send", p)
			_ = os.Remove(filepath.Join(w.spokeRoot, filepath.FromSlash(p)))
			w.touch(p, "vanish between reconcile and send")
		}
	}
	if w.spec.Concurrent > 1 {
		a.startWaves(len(res.Missing))
	}
	// a JSON round trip: fresh slices, nothing shared with hub objects
	out := &edgesync.ReconcileResult{
		Missing:   append([]string(nil), res.Missing...),
		Present:   append([]string(nil), res.Present...),
		Conflicts: append([]edgesync.Conflict(nil), res.Conflicts...),
	}
	return out, nil
}

// ── PutFile ─────────────────────────────────────────────────────────────

func cutOf(code string, n int) int {
	if n == 0 {
		return 0
	}
	k := 0
	switch code {
	case "0":
		k = 0
	case "1":
		k = 1
	case "half":
		k = n / 2
	case "last":
		k = n - 1
	}
	if k >= n {
		k = n - 1
	}
	return k
}

func (a *adapter) PutFile(ctx context.Context, hub string, entry *edgesync.LedgerEntry, body io.Reader, offset int64) (*edgesync.PutResult, error) {
	if a.w.spec.Concurrent > 1 {
		return a.putConcurrent(entry, body, offset)
	}
	a.mu.Lock()
	defer a.mu.Unlock()
	w := a.w
	r, f, err := a.begin("put")
	if err != nil {
		return nil, err
	}
	// only the content-describing fields cross the wire
	path, sha, size := entry.Path, entry.SHA256, entry.SizeBytes
	kind := ""
	if f != nil {
		kind = f.Kind
	}
	w.tracef("  put %s offset=%d fault=%s", path, offset, orNone(kind))
	see := func(s string) { w.lastSeen[path] = s }

	if kind == "crash-before" {
		a.injected(f)
		w.touch(path, f.shape())
		a.crash(r, "before the file request left")
		return nil, errSpokeDead
	}

	// The request body. A source file that vanished surfaces here as a read error, as it
	// does for HTTPTransport (http.Client fails the request while streaming the body).
	tail, rerr := io.ReadAll(body)
	if rerr != nil {
		w.tracef("    body unreadable on the spoke: %v", rerr)
		see("put error (local read failed)")
		return nil, fmt.Errorf("edgesync: file request: %w", rerr)
	}
	send := tail
	calls := 1
	lostAnswer := false

	switch kind {
	case "drop-before":
		a.injected(f)
		w.touch(path, f.shape())
		see("put error (request lost)")
		return nil, errLost
	case "backpressure":
		a.injected(f)
		w.touch(path, f.shape())
		see("put answered backpressure")
		return edgesync.BackpressureResult(0), nil
	case "drop-after":
		a.injected(f)
		lostAnswer = true
	case "short", "short-lost":
		if len(tail) > 0 {
			a.injected(f)
			send = tail[:cutOf(f.Cut, len(tail))]
			lostAnswer = kind == "short-lost"
		}
	case "corrupt":
		if len(tail) > 0 {
			a.injected(f)
			send = append([]byte(nil), tail...)
			send[len(send)/2] ^= 0x5a
		}
	case "corrupt-short":
		if k := cutOf(f.Cut, len(tail)); k > 0 {
			a.injected(f)
			send = append([]byte(nil), tail[:k]...)
			send[k/2] ^= 0x5a
		}
	case "dup":
		a.injected(f)
		calls = 2
	case "conflict":
		if a.plantConflict(path) {
			a.injected(f)
		}
	case "hub-stage-write":
		w.hubFS.arm(fsRule{Op: "write", Prefix: edgesync.StagingPrefix + "/", Mode: "error"})
	case "hub-stage-partial":
		w.hubFS.arm(fsRule{Op: "write", Prefix: edgesync.StagingPrefix + "/", Mode: "partial"})
	case "hub-promote-write":
		w.hubFS.arm(fsRule{Op: "write", Prefix: spokeID + "/", Mode: "error"})
	case "hub-promote-partial":
		w.hubFS.arm(fsRule{Op: "write", Prefix: spokeID + "/", Mode: "partial"})
	case "hub-promote-read":
		w.hubFS.arm(fsRule{Op: "read", Prefix: edgesync.StagingPrefix + "/", NoPart: true, Mode: "partial"})
	case "hub-exists":
		w.hubFS.arm(fsRule{Op: "exists", Mode: "error"})
	case "hub-index-record":
		w.setHubSwitch("fail_record", true)
	}
	if kind != "" {
		w.touch(path, f.shape())
	}

	var res *edgesync.PutResult
	var herr error
	for i := 0; i < calls; i++ {
		res, herr = w.receiver.Receive(context.Background(), spokeID, path, sha, size, offset, bytes.NewReader(send))
		if herr != nil {
			w.tracef("    hub: error %v", herr)
		} else {
			w.tracef("    hub: %s accepted=%d", res.Outcome, res.BytesAccepted)
		}
		w.cnt["hub_receive_calls"]++
	}

	if strings.HasPrefix(kind, "hub-") {
		switch kind {
		case "hub-index-record":
			w.setHubSwitch("fail_record", false)
			if herr != nil && strings.Contains(herr.Error(), "verif: injected") {
				a.injected(f)
			}
		default:
			if w.hubFS.disarm() {
				a.injected(f)
			}
		}
	}
	w.observeHub("after put " + orNone(kind))

	if kind == "crash-after" {
		a.injected(f)
		a.crash(r, "after the hub answered the file request, before the spoke read the answer")
		return nil, errSpokeDead
	}
	if lostAnswer {
		see("put error (answer lost)")
		return nil, errLost
	}
	if herr != nil {
		see("put error (hub error)")
		return nil, wireErr("file transfer", herr)
	}
	see("put answered " + string(res.Outcome))
	out := *res // decoded copy
	return &out, nil
}

// plantConflict models a foreign writer (a spoke-ID collision, an operator copying files)
// that put DIFFERENT bytes of the SAME size at the hub path first. Only done when the hub
// has neither a file nor a receipt for the path, so the receive path never wrote there.
func (a *adapter) plantConflict(src string) bool {
	w := a.w
	want := w.truth[src]
	if len(want) == 0 {
		return false
	}
	rel := edgesync.NamespacedPath(spokeID, src)
	if _, ok := w.snap.visible[rel]; ok {
		return false
	}
	var n int
	if err := w.hubMon.QueryRow(`SELECT COUNT(*) FROM sync_received WHERE spoke_id = ? AND source_path = ?`, spokeID, src).Scan(&n); err != nil || n > 0 {
		return false
	}
	if _, done := w.compacted[w.truthSHA[src]]; done {
		return false
	}
	other := append([]byte(nil), want...)
	other[len(other)-1] ^= 0xff
	if err := w.hubBE.Write(context.Background(), rel, other); err != nil {
		return false
	}
	w.planted[src] = shaHex(other)
	w.tracef("    foreign writer plants %d different bytes at hub path %s", len(other), rel)
	w.cnt["foreign_files_planted"]++
	return true
}
