package main

import (
	"fmt"
	"os"
	"runtime"
	"sort"
	"strings"
	"sync"
	"sync/atomic"

	"github.com/basekick-labs/arc/internal/zzverif/vlib"
)

type caseResult struct {
	spec    *caseSpec
	finds   []finding
	cnt     map[string]int64
	fired   int
	inconcl string
	trace   []string
	panicV  any

	keepTrace bool
}

func runCase(spec *caseSpec) (res *caseResult) {
	if spec.Overlap != nil {
		return runOverlapCase(spec)
	}
	res = &caseResult{spec: spec}
	w, err := newWorld(spec)
	defer func() {
		if r := recover(); r != nil {
			res.panicV = r
			res.inconcl = fmt.Sprintf("panic: %v", r)
		}
		if w != nil {
			if res.keepTrace || res.panicV != nil {
				res.trace = w.trace // 10^5 cases: only the traces that will be reported are kept
			}
			w.close()
		}
	}()
	if err != nil {
		res.inconcl = "cannot build the world: " + err.Error()
		return res
	}
	w.execute()
	res.finds, res.cnt, res.fired, res.inconcl = w.finds, w.cnt, w.fired+w.overlapWaves, w.inconcl
	res.keepTrace = len(w.finds) > 0 || w.inconcl != "" || spec.Idx < 3
	return res
}

type replayDetail struct {
	Case    *caseSpec `json:"case"`
	Finding finding   `json:"finding"`
}

func checkC27(c *vlib.Ctx) {
	c.Rule("A case = 2-6 spoke files with unique content + a schedule of agent runs, each with a fault script addressed " +
		"to the N-th Reconcile/PutFile call of that run (lost request, lost answer, short body, flipped byte, backpressure, " +
		"foreign conflicting file, duplicate delivery, hub storage / receipt-index write failures, spoke crash before/after " +
		"the call) and events between runs (spoke file vanishes / is compacted / appears, hub copy removed, hub compaction " +
		"consumes received files, staging sweep, hub restart, clean spoke restart), then fault-free runs to a fixpoint. " +
		"Families: every single fault at every call of a 3-file run; pairs of faults (same run and consecutive runs); " +
		"fault x event (x fault); random 2-6 run histories. A case is non-trivial when at least one scripted fault's " +
		"injection point was actually reached; distinct = distinct schedule.")
	c.Assume("Ground truth is the generator's content map (spoke path -> bytes); the hub is judged by walking its storage " +
		"directory and reading its sync_received table; ledger transitions come from SQLite triggers installed by the " +
		"harness on the ledger database file (no arc source change).")
	c.Assume("Families G/H cover overlapping transfers: G drives 2-3 Receiver.Receive calls at once with gated bodies " +
		"(started one by one, each parked mid-stream, released in every order; resumed + fresh; equal base names in " +
		"different directories, equal paths in different spokes, distinct names, the same file twice); H runs the real " +
		"Agent with MaxConcurrent 2-4 over files that share a base name, the adapter forcing each wave of PutFile calls " +
		"to overlap in a fixed order. In H a -> synced is judged against the latest hub observation.")
	c.Assume("In all other families the agent runs with MaxConcurrent=1 so that the order of transport calls is a function of the ledger; " +
		"the hub only changes inside transport calls and harness events, which is what makes 'the hub at the moment the " +
		"row became synced' observable after the fact.")
	c.Assume("A spoke crash is modelled by cancelling the run's context inside the transport call (every later ledger " +
		"write of that Agent fails) and discarding Agent, Ledger and database handle; files planted by the harness's " +
		"foreign writer are not counted as hub output; hub compaction is modelled by the harness with the same " +
		"HubIndex.MarkCompacted call cmd/arc wires.")

	if c.Replay != "" {
		var d replayDetail
		if err := vlib.LoadReplay(c.Replay, &d); err != nil || d.Case == nil {
			c.Inconclusive(fmt.Sprintf("cannot load replay %s: %v", c.Replay, err))
			return
		}
		r := runCase(d.Case)
		for _, l := range r.trace {
			fmt.Println(l)
		}
		report(c, r)
		c.Floor(0)
		return
	}

	cases := buildCases(c.Rand("cases"), c.Quick())
	if only := os.Getenv("VERIF_C27_FAMILY"); only != "" {
		// development aid: run the families whose name starts with the given prefix
		var keep []*caseSpec
		for _, cs := range cases {
			if strings.HasPrefix(cs.Family, only) {
				keep = append(keep, cs)
			}
		}
		cases = keep
		c.Floor(0)
		defer c.Floor(0)
	}
	results := make([]*caseResult, len(cases))
	var next atomic.Int64
	var wg sync.WaitGroup
	workers := runtime.NumCPU()
	if workers > 16 {
		workers = 16
	}
	for i := 0; i < workers; i++ {
		wg.Add(1)
		go func() {
			defer wg.Done()
			for {
				n := int(next.Add(1)) - 1
				if n >= len(cases) {
					return
				}
				results[n] = runCase(cases[n])
			}
		}()
	}
	wg.Wait()

	fam := map[string]int{}
	for _, r := range results {
		fam[r.spec.Family]++
		report(c, r)
	}
	c.Extra("cases_per_family", fam)
	bulkFamily(c)
	if c.Quick() {
		c.Floor(2500)
	} else {
		c.Floor(60000)
	}
}

func report(c *vlib.Ctx, r *caseResult) {
	c.Eval()
	if r.inconcl != "" {
		c.Inconclusive(fmt.Sprintf("case %d (%s): %s", r.spec.Idx, r.spec.key(), r.inconcl))
		return
	}
	keys := make([]string, 0, len(r.cnt))
	for k := range r.cnt {
		keys = append(keys, k)
	}
	sort.Strings(keys)
	for _, k := range keys {
		c.Count(k, r.cnt[k])
	}
	if r.fired > 0 {
		c.Nontrivial(r.spec.key())
		c.Count("cases_with_a_fault_reached", 1)
	} else {
		c.Count("cases_without_any_fault_reached", 1)
	}
	for _, f := range r.finds {
		f.Trace = r.trace
		if c.Violation(f.Sig, replayDetail{Case: r.spec, Finding: f}) {
			c.Count("violating_cases_clause_"+f.Clause, 1)
		}
	}
	if len(r.finds) == 0 && r.spec.Idx < 3 {
		c.Sample(map[string]any{"case": r.spec.key(), "trace_head": head(r.trace, 24)})
	}
}

func head(s []string, n int) []string {
	if len(s) > n {
		return s[:n]
	}
	return s
}
