package main

// world: one spoke (real LocalBackend + real Ledger on a SQLite file + real Agent)
// and one hub (real HubIndex on its own SQLite file, real Receiver and Reconciler
// over a real LocalBackend behind faultfs), connected by the adapter transport in
// transport.go. Everything lives in one scratch directory.

import (
	"context"
	"crypto/sha256"
	"database/sql"
	"encoding/hex"
	"errors"
	"fmt"
	"io/fs"
	"math/rand/v2"
	"os"
	"path/filepath"
	"sort"
	"strings"
	"time"

	"github.com/basekick-labs/arc/internal/edgesync"
	"github.com/basekick-labs/arc/internal/storage"
	"github.com/basekick-labs/arc/internal/zzverif/vlib"
	_ "github.com/mattn/go-sqlite3"
	"github.com/rs/zerolog"
)

const (
	spokeID       = "rocket-01"
	hubID         = "ground-station"
	maxAttempts   = edgesync.DefaultMaxAttempts
	convergeBound = 12 // fault-free runs allowed for reaching the fixpoint
	runWatchdog   = 60 * time.Second
)

// finding is one refuting observation of one case.
type finding struct {
	Sig    string   `json:"signature"`
	Clause string   `json:"clause"`
	What   string   `json:"what"`
	Path   string   `json:"file,omitempty"`
	Trace  []string `json:"trace,omitempty"`
}

// hubFile is one file found in the hub's storage root.
type hubFile struct {
	Rel  string // path relative to the hub storage root
	SHA  string
	Size int
	data []byte
}

// hubSnap is what the hub exposes at one instant.
type hubSnap struct {
	visible map[string]*hubFile // *.parquet outside the staging area, by hub-relative path
	staged  int                 // files under .sync-staging
	residue int                 // non-parquet leftovers outside staging (e.g. "<final>.part")
}

type world struct {
	spec *caseSpec
	dir  string

	// spoke
	spokeRoot  string
	spokeBE    *storage.LocalBackend
	ledgerPath string
	ledgerDB   *sql.DB // handle owned by arc's Ledger
	monDB      *sql.DB // harness's own connection to the ledger file (trigger log reader)
	ledger     *edgesync.Ledger
	agent      *edgesync.Agent
	transport  *adapter

	// hub
	hubRoot    string
	hubBE      *storage.LocalBackend
	hubFS      *faultFS
	hubDBPath  string
	hubDB      *sql.DB // handle owned by arc's HubIndex
	hubMon     *sql.DB // harness's own connection (fault switch + receipt reader)
	index      *edgesync.HubIndex
	receiver   *edgesync.Receiver
	reconciler *edgesync.Reconciler

	// ground truth (generator): every spoke file ever created, by spoke path
	paths     []string
	truth     map[string][]byte
	truthSHA  map[string]string
	planted   map[string]string // spoke path -> sha of the foreign bytes planted at the hub path
	compacted map[string]string // content sha -> spoke path consumed by the hub's compaction
	// content sha -> whether a receipt existed (and so was stamped) when it was consumed
	compactedHadReceipt map[string]bool

	// monitors
	snap     *hubSnap
	lastSeq  int64
	state    map[string]string   // spoke path -> ledger state per the trigger log
	shapes   map[string][]string // spoke path -> fault/event shapes that touched the file
	lastSeen map[string]string   // spoke path -> what the spoke last saw from the hub for it
	trace    []string
	finds    []finding
	reported map[string]bool
	cnt      map[string]int64
	fired    int // faults whose injection point was reached
	// family H: waves in which two or more transfers were parked mid-stream together
	overlapWaves int
	run          *runState
	faultsOn     bool // still inside the faulty part of the schedule
	inconcl      string
}

// ── construction ────────────────────────────────────────────────────────

func newWorld(spec *caseSpec) (*world, error) {
	w := &world{
		spec: spec, dir: vlib.TempDir("c27"),
		truth: map[string][]byte{}, truthSHA: map[string]string{},
		planted: map[string]string{}, compacted: map[string]string{}, compactedHadReceipt: map[string]bool{},
		state: map[string]string{}, shapes: map[string][]string{}, lastSeen: map[string]string{},
		cnt: map[string]int64{}, faultsOn: true, reported: map[string]bool{},
	}
	w.spokeRoot = filepath.Join(w.dir, "spoke")
	w.hubRoot = filepath.Join(w.dir, "hub")
	w.ledgerPath = filepath.Join(w.dir, "spoke-ledger.db")
	w.hubDBPath = filepath.Join(w.dir, "hub-index.db")
	var err error
	if w.spokeBE, err = storage.NewLocalBackend(w.spokeRoot, zerolog.Nop()); err != nil {
		return w, err
	}
	if w.hubBE, err = storage.NewLocalBackend(w.hubRoot, zerolog.Nop()); err != nil {
		return w, err
	}
	w.hubFS = newFaultFS(w.hubBE)
	w.transport = &adapter{w: w}
	if err := w.openHub(); err != nil {
		return w, err
	}
	for i, size := range spec.Sizes {
		if err := w.addSpokeFile(i, size); err != nil {
			return w, err
		}
	}
	w.snap = w.snapshotHub()
	return w, nil
}

func (w *world) close() {
	w.closeSpoke()
	w.closeHub()
	if w.monDB != nil {
		w.monDB.Close()
	}
	if w.hubMon != nil {
		w.hubMon.Close()
	}
	os.RemoveAll(w.dir)
}

func openSQLite(path string) (*sql.DB, error) {
	// same DSN and pool shape as cmd/arc sharedSQLiteHandle
	db, err := sql.Open("sqlite3", path+"?_journal_mode=WAL&_busy_timeout=5000")
	if err != nil {
		return nil, err
	}
	if err := db.Ping(); err != nil {
		db.Close()
		return nil, err
	}
	db.SetMaxOpenConns(1)
	db.SetMaxIdleConns(1)
	return db, nil
}

const translogSchema = `
CREATE TABLE IF NOT EXISTS verif_translog (
	seq INTEGER PRIMARY KEY AUTOINCREMENT, op TEXT NOT NULL, hub_id TEXT, path TEXT NOT NULL,
	old_state TEXT, new_state TEXT, attempts INTEGER, bytes_sent INTEGER, last_error TEXT);
CREATE TRIGGER IF NOT EXISTS verif_tl_ins AFTER INSERT ON sync_ledger BEGIN
	INSERT INTO verif_translog(op,hub_id,path,old_state,new_state,attempts,bytes_sent,last_error)
	VALUES('I',NEW.hub_id,NEW.path,NULL,NEW.state,NEW.attempts,NEW.bytes_sent,NEW.last_error); END;
CREATE TRIGGER IF NOT EXISTS verif_tl_upd AFTER UPDATE ON sync_ledger WHEN OLD.state IS NOT NEW.state BEGIN
	INSERT INTO verif_translog(op,hub_id,path,old_state,new_state,attempts,bytes_sent,last_error)
	VALUES('U',NEW.hub_id,NEW.path,OLD.state,NEW.state,NEW.attempts,NEW.bytes_sent,NEW.last_error); END;
CREATE TRIGGER IF NOT EXISTS verif_tl_del AFTER DELETE ON sync_ledger BEGIN
	INSERT INTO verif_translog(op,hub_id,path,old_state,new_state,attempts,bytes_sent,last_error)
	VALUES('D',OLD.hub_id,OLD.path,OLD.state,NULL,OLD.attempts,OLD.bytes_sent,OLD.last_error); END;
`

// openSpoke builds a NEW Ledger and Agent over the same SQLite file and the same
// spoke storage: process start (first call), clean restart, or restart after a crash.
func (w *world) openSpoke() error {
	w.closeSpoke()
	var err error
	if w.ledgerDB, err = openSQLite(w.ledgerPath); err != nil {
		return err
	}
	if w.ledger, err = edgesync.NewLedger(w.ledgerDB, zerolog.Nop()); err != nil {
		return err
	}
	if w.monDB == nil {
		if w.monDB, err = openSQLite(w.ledgerPath); err != nil {
			return err
		}
		// the transition monitor: triggers live in the database file, so they see every
		// write of every later Ledger instance, with no change to arc
		if _, err = w.monDB.Exec(translogSchema); err != nil {
			return fmt.Errorf("install transition triggers: %w", err)
		}
	}
	w.agent, err = edgesync.NewAgent(edgesync.AgentConfig{
		Ledger: w.ledger, Transport: w.transport, Backend: w.spokeBE,
		HubID: hubID, SpokeID: spokeID,
		// one transfer at a time: the order of transport calls (and with it the meaning
		// of "the N-th PutFile of this run") is then a function of the ledger alone
		MaxConcurrent: w.maxConcurrent(),
		BatchSize:     w.spec.BatchSize,
		Logger:        zerolog.Nop(),
	})
	w.cnt["spoke_process_starts"]++
	return err
}

func (w *world) maxConcurrent() int {
	if w.spec.Concurrent > 1 {
		return w.spec.Concurrent
	}
	return 1
}

func (w *world) closeSpoke() {
	if w.ledgerDB != nil {
		w.ledgerDB.Close()
	}
	w.ledgerDB, w.ledger, w.agent = nil, nil, nil
}

const hubCtlSchema = `
CREATE TABLE IF NOT EXISTS verif_ctl (k TEXT PRIMARY KEY, v INTEGER NOT NULL);
INSERT OR IGNORE INTO verif_ctl(k,v) VALUES('fail_record',0),('fail_forget',0);
CREATE TRIGGER IF NOT EXISTS verif_fail_ins BEFORE INSERT ON sync_received
	WHEN (SELECT v FROM verif_ctl WHERE k='fail_record') = 1
	BEGIN SELECT RAISE(ABORT, 'verif: injected receipt-index write failure'); END;
CREATE TRIGGER IF NOT EXISTS verif_fail_upd BEFORE UPDATE OF sha256 ON sync_received
	WHEN (SELECT v FROM verif_ctl WHERE k='fail_record') = 1
	BEGIN SELECT RAISE(ABORT, 'verif: injected receipt-index write failure'); END;
CREATE TRIGGER IF NOT EXISTS verif_fail_del BEFORE DELETE ON sync_received
	WHEN (SELECT v FROM verif_ctl WHERE k='fail_forget') = 1
	BEGIN SELECT RAISE(ABORT, 'verif: injected receipt-index delete failure'); END;
`

func (w *world) openHub() error {
	w.closeHub()
	var err error
	if w.hubDB, err = openSQLite(w.hubDBPath); err != nil {
		return err
	}
	if w.index, err = edgesync.NewHubIndex(w.hubDB, zerolog.Nop()); err != nil {
		return err
	}
	if w.hubMon == nil {
		if w.hubMon, err = openSQLite(w.hubDBPath); err != nil {
			return err
		}
		if _, err = w.hubMon.Exec(hubCtlSchema); err != nil {
			return fmt.Errorf("install hub index fault switch: %w", err)
		}
	}
	if w.receiver, err = edgesync.NewReceiver(edgesync.ReceiverConfig{
		Backend: w.hubFS, Index: w.index, Logger: zerolog.Nop(),
	}); err != nil {
		return err
	}
	w.reconciler, err = edgesync.NewReconciler(edgesync.ReconcilerConfig{
		Index: w.index, Backend: w.hubFS, MaxEntries: w.spec.MaxEntries,
	})
	return err
}

func (w *world) closeHub() {
	if w.hubDB != nil {
		w.hubDB.Close()
	}
	w.hubDB, w.index, w.receiver, w.reconciler = nil, nil, nil, nil
}

func (w *world) setHubSwitch(k string, on bool) {
	v := 0
	if on {
		v = 1
	}
	if _, err := w.hubMon.Exec(`UPDATE verif_ctl SET v = ? WHERE k = ?`, v, k); err != nil {
		panic(fmt.Sprintf("hub fault switch: %v", err))
	}
}

// ── ground truth ────────────────────────────────────────────────────────

func spokePath(i int) string {
	// distinct hour partitions: Pending orders partition_time DESC, so the order in
	// which the agent offers and sends files is fixed by the index (newest = highest)
	return fmt.Sprintf("db%d/m%d/2026/08/%02d/%02d/f%02d.parquet", i%2, i%3, 1+i/24, i%24, i)
}

func genContent(seed uint64, i, size int) []byte {
	b := make([]byte, size)
	r := rand.New(rand.NewPCG(seed, uint64(i)+1))
	for j := range b {
		b[j] = byte(r.Uint32())
	}
	if size > 0 {
		b[0] = byte(0x41 + i) // unique even for one-byte files
	}
	if size > 1 {
		b[1] = byte(seed)
	}
	return b
}

func shaHex(b []byte) string {
	s := sha256.Sum256(b)
	return hex.EncodeToString(s[:])
}

// sameBasePath: every file is called data.parquet; hour, day, measurement and database
// differ (Arc's own writers name files by timestamp, but nothing in the sync protocol
// forbids equal base names: the identity of a file is its full path).
func sameBasePath(i int) string {
	return fmt.Sprintf("db%d/m%d/2026/08/%02d/%02d/data.parquet", i%2, i%3, 1+i/24, i%24)
}

func (w *world) addSpokeFile(i, size int) error {
	p := spokePath(i)
	if w.spec.Layout == "same-base" {
		p = sameBasePath(i)
	}
	data := genContent(w.spec.Seed, i, size)
	for len(w.paths) <= i {
		w.paths = append(w.paths, "")
	}
	w.paths[i] = p
	w.truth[p] = data
	w.truthSHA[p] = shaHex(data)
	w.cnt["spoke_files_created"]++
	return w.spokeBE.Write(context.Background(), p, data)
}

func (w *world) spokeHas(p string) bool {
	_, err := os.Stat(filepath.Join(w.spokeRoot, filepath.FromSlash(p)))
	return err == nil
}

func (w *world) touch(path, shape string) {
	s := w.shapes[path]
	if len(s) > 0 && s[len(s)-1] == shape {
		return
	}
	s = append(s, shape)
	if len(s) > 8 {
		s = s[len(s)-8:]
	}
	w.shapes[path] = s
}

func (w *world) shapeOf(path string) string {
	if s := w.shapes[path]; len(s) > 0 {
		return strings.Join(s, " + ")
	}
	return "no fault touched this file"
}

func (w *world) tracef(format string, a ...any) {
	if len(w.trace) < 600 {
		w.trace = append(w.trace, fmt.Sprintf(format, a...))
	}
}

func (w *world) violate(clause, sig, what, path string) {
	// one persisting condition is reported once per file and clause, and one signature
	// once per case
	key := clause + "|" + path
	if w.reported[key] {
		return
	}
	w.reported[key] = true
	for _, f := range w.finds {
		if f.Sig == sig {
			return
		}
	}
	w.tracef("VIOLATION %s: %s", clause, what)
	w.finds = append(w.finds, finding{Sig: sig, Clause: clause, What: what, Path: path})
}

// ── hub observation (clauses 1 and 2) ───────────────────────────────────

func (w *world) snapshotHub() *hubSnap { return snapshotRoot(w.hubRoot) }

// snapshotRoot reads what a hub storage root exposes right now.
func snapshotRoot(root string) *hubSnap {
	s := &hubSnap{visible: map[string]*hubFile{}}
	_ = filepath.WalkDir(root, func(p string, d fs.DirEntry, err error) error {
		if err != nil || d.IsDir() {
			return nil
		}
		rel, _ := filepath.Rel(root, p)
		rel = filepath.ToSlash(rel)
		switch {
		case strings.HasPrefix(rel, edgesync.StagingPrefix+"/"):
			s.staged++
		case strings.HasSuffix(rel, ".parquet"):
			data, rerr := os.ReadFile(p)
			if rerr != nil {
				return nil
			}
			s.visible[rel] = &hubFile{Rel: rel, SHA: shaHex(data), Size: len(data), data: data}
		default:
			s.residue++
		}
		return nil
	})
	return s
}

func classifyDiff(got, want []byte) string {
	switch {
	case len(got) < len(want) && string(want[:len(got)]) == string(got):
		return "a truncated prefix of the spoke's bytes"
	case len(got) == len(want):
		return "bytes of the right length but different content"
	default:
		return "different bytes"
	}
}

// observeHub re-reads the hub's storage and receipt index and checks clauses 1 and 2.
// Called after every transport call that reached the hub, after every event, after
// every run.
func (w *world) observeHub(when string) {
	trigger := strings.TrimPrefix(when, "after ")
	s := w.snapshotHub()
	w.snap = s
	w.cnt["hub_observations"]++
	prefix := spokeID + "/"
	byContent := map[string][]string{}
	rels := make([]string, 0, len(s.visible))
	for rel := range s.visible {
		rels = append(rels, rel)
	}
	sort.Strings(rels)
	for _, rel := range rels {
		hf := s.visible[rel]
		w.cnt["hub_files_compared"]++
		if !strings.HasPrefix(rel, prefix) {
			w.violate("2", "hub stores a received file outside the spoke's namespace",
				fmt.Sprintf("%s: hub file %q is outside %q", when, rel, prefix), rel)
			continue
		}
		src := strings.TrimPrefix(rel, prefix)
		if psha, ok := w.planted[src]; ok && psha == hf.SHA {
			w.cnt["hub_files_foreign_planted"]++
			continue // written by the harness's foreign writer, not by the receive path
		}
		want, ok := w.truth[src]
		if !ok {
			w.violate("1", "hub exposes a file that corresponds to no spoke file",
				fmt.Sprintf("%s: hub file %q has no source on the spoke", when, rel), src)
			continue
		}
		if hf.SHA != w.truthSHA[src] {
			w.violate("1",
				fmt.Sprintf("hub exposes %s (first seen after %s)", classifyDiff(hf.data, want), trigger),
				fmt.Sprintf("%s: hub file %q sha256 %s (%d bytes) differs from the spoke's %s (%d bytes); faults that touched the file: %s",
					when, rel, hf.SHA, hf.Size, w.truthSHA[src], len(want), w.shapeOf(src)), src)
			continue
		}
		w.cnt["hub_files_identical"]++
		byContent[hf.SHA] = append(byContent[hf.SHA], rel)
		if csrc, dup := w.compacted[hf.SHA]; dup {
			how := "although its receipt was stamped compacted"
			if !w.compactedHadReceipt[hf.SHA] {
				how = "the file had been promoted without a receipt (receipt write failed) when compaction consumed it"
			}
			w.violate("2",
				"hub re-accepted a file whose content its own compaction already consumed (stored twice): "+how,
				fmt.Sprintf("%s: %q is visible again although the content of %q lives in a compacted output; faults that touched the file: %s",
					when, rel, csrc, w.shapeOf(src)), src)
		}
	}
	for sha, ps := range byContent {
		if len(ps) > 1 {
			sort.Strings(ps)
			w.violate("2", "hub holds two visible copies of one spoke file",
				fmt.Sprintf("%s: content %s is stored at %v", when, sha, ps), ps[0])
		}
	}
	// receipt index: at most one row per spoke file, pointing at the namespaced path
	rows, err := w.hubMon.Query(`SELECT source_path, hub_path, COUNT(*) FROM sync_received WHERE spoke_id = ? GROUP BY source_path`, spokeID)
	if err != nil {
		w.inconcl = "hub index unreadable: " + err.Error()
		return
	}
	defer rows.Close()
	for rows.Next() {
		var src, hp string
		var n int
		if rows.Scan(&src, &hp, &n) != nil {
			continue
		}
		w.cnt["hub_receipts_checked"]++
		if n > 1 {
			w.violate("2", "hub receipt index holds two rows for one spoke file",
				fmt.Sprintf("%s: %d receipts for %q", when, n, src), src)
		}
		if hp != edgesync.NamespacedPath(spokeID, src) {
			w.violate("2", "hub receipt points at a path other than the spoke's namespaced path",
				fmt.Sprintf("%s: receipt for %q says hub_path=%q", when, src, hp), src)
		}
	}
}

// hubHolds reports whether, per the last observation, the hub holds spoke file p with
// identical content (visible at the namespaced path, or inside a compacted output),
// and otherwise describes what it has instead.
func (w *world) hubHolds(p string) (bool, string) {
	want := w.truthSHA[p]
	if hf, ok := w.snap.visible[edgesync.NamespacedPath(spokeID, p)]; ok {
		if hf.SHA == want {
			return true, ""
		}
		if w.planted[p] == hf.SHA {
			return false, "the hub holds different bytes at that path (foreign same-size content)"
		}
		return false, "the hub holds different bytes at that path"
	}
	if _, ok := w.compacted[want]; ok {
		return true, ""
	}
	return false, "the hub holds no such file"
}

// ── ledger transition monitor (clauses 3 and 5) ─────────────────────────

type edge struct{ from, to string }

// documented transition graph of ledger.go (see NOTES.md). The value says who may
// take the edge: "agent" = a sync pass, anything else = an API this harness never calls.
var documentedEdges = map[edge]string{
	{"", "pending"}:          "agent",    // Track / TrackBatch (discovery)
	{"", "skipped"}:          "agent",    // TrackCompactedOutput (needs a defer epoch: unused here)
	{"pending", "in_flight"}: "agent",    // MarkInFlight
	{"pending", "synced"}:    "agent",    // MarkSynced: reconcile said present
	{"pending", "failed"}:    "agent",    // MarkConflicted (conflict found by reconcile)
	{"pending", "skipped"}:   "agent",    // MarkSkipped
	{"in_flight", "synced"}:  "agent",    // MarkSynced after the ack
	{"in_flight", "pending"}: "agent",    // MarkFailed below the cap; RecoverInFlight
	{"in_flight", "failed"}:  "agent",    // MarkFailed at the cap / conflict
	{"in_flight", "skipped"}: "agent",    // MarkSkipped (source vanished mid-transfer)
	{"pending", "exported"}:  "export",   // MarkExported (air-gap bundle)
	{"exported", "synced"}:   "export",   // ack bundle
	{"exported", "pending"}:  "operator", // RevertExported
	{"failed", "pending"}:    "operator", // RequeueFailed
	{"skipped", "pending"}:   "operator", // RequeueFailed of an operator-dismissed row
	{"failed", "skipped"}:    "operator", // DismissFailed
	{"synced", ""}:           "prune",    // PruneSynced
	{"skipped", ""}:          "prune",    // PruneSkipped / SweepSkippedRows
}

func (w *world) checkEdge(op, path, from, to string, attempts int, lastErr string) {
	actor, ok := documentedEdges[edge{from, to}]
	name := func(s string) string {
		if s == "" {
			return "(no row)"
		}
		return s
	}
	if !ok {
		w.violate("5", fmt.Sprintf("undocumented ledger transition %s -> %s", name(from), name(to)),
			fmt.Sprintf("%s %s: %s -> %s (attempts=%d, last_error=%q)", op, path, name(from), name(to), attempts, lastErr), path)
		return
	}
	if actor != "agent" {
		w.violate("5", fmt.Sprintf("ledger transition %s -> %s is documented only for a %s action, none happened", name(from), name(to), actor),
			fmt.Sprintf("%s %s: %s -> %s (attempts=%d, last_error=%q)", op, path, name(from), name(to), attempts, lastErr), path)
		return
	}
	conflict := strings.HasPrefix(lastErr, "conflict")
	switch {
	case from == "in_flight" && to == "failed" && attempts < maxAttempts && !conflict:
		// MarkFailed: "If the entry has reached maxAttempts it becomes terminally failed;
		// otherwise it returns to pending" — the only other documented way is a conflict
		w.violate("5", "ledger transition in_flight -> failed below the attempt cap and without a conflict",
			fmt.Sprintf("%s: attempts=%d (cap %d), last_error=%q", path, attempts, maxAttempts, lastErr), path)
	case from == "pending" && to == "failed" && !conflict:
		w.violate("5", "ledger transition pending -> failed without a conflict (only MarkConflicted may do that)",
			fmt.Sprintf("%s: attempts=%d, last_error=%q", path, attempts, lastErr), path)
	case from == "" && to == "skipped":
		w.violate("5", "ledger row inserted as skipped although no compaction-defer epoch is configured",
			fmt.Sprintf("%s: last_error=%q", path, lastErr), path)
	}
}

// drainLog reads the transitions the triggers appended since the last call and checks
// each against the graph (clause 5) and, for -> synced, against the hub as last
// observed (clause 3). The hub only changes inside transport calls and events, and
// drainLog runs at the start of every transport call and after every run, so the last
// observation IS the hub's state at the moment of the transition.
func (w *world) drainLog() {
	rows, err := w.monDB.Query(`SELECT seq, op, path, COALESCE(old_state,''), COALESCE(new_state,''), COALESCE(attempts,0), COALESCE(last_error,'')
		FROM verif_translog WHERE seq > ? ORDER BY seq`, w.lastSeq)
	if err != nil {
		w.inconcl = "transition log unreadable: " + err.Error()
		return
	}
	type rec struct {
		seq            int64
		op, path, o, n string
		attempts       int
		lastErr        string
	}
	var recs []rec
	for rows.Next() {
		var r rec
		if err := rows.Scan(&r.seq, &r.op, &r.path, &r.o, &r.n, &r.attempts, &r.lastErr); err == nil {
			recs = append(recs, r)
		}
	}
	rows.Close()
	for _, r := range recs {
		w.lastSeq = r.seq
		w.cnt["transitions_logged"]++
		w.cnt["transition "+orNone(r.o)+"->"+orNone(r.n)]++
		w.tracef("  ledger %s: %s -> %s (attempts=%d)", r.path, orNone(r.o), orNone(r.n), r.attempts)
		if known, ok := w.state[r.path]; ok && known != r.o {
			w.violate("5", "transition log is not a chain (old state differs from the previous new state)",
				fmt.Sprintf("%s: log says %s -> %s but the row was %s", r.path, r.o, r.n, known), r.path)
		}
		w.checkEdge(r.op, r.path, r.o, r.n, r.attempts, r.lastErr)
		if r.n == "" {
			delete(w.state, r.path)
		} else {
			w.state[r.path] = r.n
		}
		if r.n == "synced" {
			w.cnt["synced_transitions_checked"]++
			if ok, instead := w.hubHolds(r.path); !ok {
				seen := orNothing(w.lastSeen[r.path])
				w.violate("3",
					fmt.Sprintf("ledger marked synced (from %s, %s) while %s; the spoke had last seen: %s", r.o, w.phase(), instead, seen),
					fmt.Sprintf("%s became synced (from %s) but %s; faults that touched the file: %s", r.path, r.o, instead, w.shapeOf(r.path)), r.path)
			} else {
				w.cnt["synced_with_identical_hub_content"]++
			}
		}
	}
}

// phase says where inside a run the transitions being drained happened.
func (w *world) phase() string {
	if w.run != nil && w.run.calls == 0 {
		return "before the run's first transport call"
	}
	return "after a transport call"
}

func orNothing(s string) string {
	if s == "" {
		return "nothing from the hub about it"
	}
	return s
}

func orNone(s string) string {
	if s == "" {
		return "none"
	}
	return s
}

// ledgerRows reads the ledger table itself (not the log).
func (w *world) ledgerRows() map[string]string {
	out := map[string]string{}
	rows, err := w.monDB.Query(`SELECT path, state FROM sync_ledger WHERE hub_id = ?`, hubID)
	if err != nil {
		w.inconcl = "ledger unreadable: " + err.Error()
		return out
	}
	defer rows.Close()
	for rows.Next() {
		var p, s string
		if rows.Scan(&p, &s) == nil {
			out[p] = s
		}
	}
	return out
}

func terminal(s string) bool { return s == "synced" || s == "skipped" || s == "failed" }

// ── steps ───────────────────────────────────────────────────────────────

type runState struct {
	faults  []fault
	used    []bool
	recN    int
	putN    int
	cancel  context.CancelFunc
	crashed bool
	calls   int
}

func (r *runState) faultFor(on string, n int) *fault {
	for i := range r.faults {
		if !r.used[i] && r.faults[i].On == on && r.faults[i].N == n {
			r.used[i] = true
			return &r.faults[i]
		}
	}
	return nil
}

// doRun performs one Agent.Run under the given fault script.
func (w *world) doRun(faults []fault, restart bool) {
	if restart && w.agent != nil {
		w.tracef("spoke restarts (clean)")
		w.cnt["spoke_clean_restarts"]++
	}
	if restart || w.agent == nil {
		if err := w.openSpoke(); err != nil {
			w.inconcl = "cannot open the spoke: " + err.Error()
			return
		}
	}
	ctx, cancel := context.WithTimeout(context.Background(), runWatchdog)
	w.run = &runState{faults: faults, used: make([]bool, len(faults)), cancel: cancel}
	w.cnt["agent_runs"]++
	w.tracef("run faults=%v", faults)
	res, err := w.agent.Run(ctx)
	w.transport.mu.Lock()
	w.transport.endWaves()
	w.transport.mu.Unlock()
	if ctx.Err() == context.DeadlineExceeded {
		w.inconcl = "agent run exceeded the watchdog"
	}
	cancel()
	if err != nil {
		w.tracef("  run error: %v", err)
		w.cnt["agent_runs_returning_error"]++
	} else if res != nil {
		w.tracef("  run result: discovered=%d recovered=%d present=%d sent=%d partial=%d failed=%d skipped=%d conflicts=%d",
			res.Discovered, res.Recovered, res.AlreadyPresent, res.Sent, res.Partial, res.Failed, res.Skipped, len(res.Conflicts))
	}
	w.drainLog()
	w.observeHub("after run")
	if w.run.crashed {
		// the process is gone: drop the Agent, the Ledger and its database handle
		w.closeSpoke()
		w.cnt["spoke_crashes"]++
	}
	w.run = nil
}

func (w *world) doEvent(st step) {
	ctx := context.Background()
	n := len(w.paths)
	tgt := func(i int) string { return w.paths[((i%n)+n)%n] }
	w.cnt["event "+st.Event]++
	switch st.Event {
	case "spoke-vanish":
		p := tgt(st.Target)
		w.tracef("event spoke-vanish %s", p)
		_ = w.spokeBE.Delete(ctx, p)
		w.touch(p, "event spoke-vanish")
	case "spoke-compact":
		a, b := tgt(st.Target), tgt(st.Target+1)
		w.tracef("event spoke-compact %s + %s -> f%02d", a, b, n)
		_ = w.spokeBE.Delete(ctx, a)
		_ = w.spokeBE.Delete(ctx, b)
		w.touch(a, "event spoke-compact")
		w.touch(b, "event spoke-compact")
		_ = w.addSpokeFile(n, 64+len(w.truth[a])%1000+len(w.truth[b])%1000)
	case "spoke-new":
		w.tracef("event spoke-new f%02d", n)
		_ = w.addSpokeFile(n, 200+n)
	case "hub-remove":
		p := tgt(st.Target)
		w.tracef("event hub-remove %s", p)
		_ = w.hubBE.Delete(ctx, edgesync.NamespacedPath(spokeID, p))
		delete(w.planted, p)
		w.touch(p, "event hub-remove")
	case "hub-compact":
		// the hub's compaction consumes every received file that is visible and verified;
		// cmd/arc's SetOnConsumedInputs observer then stamps the receipts
		var consumed []string
		for i := range w.paths {
			p := w.paths[i]
			hf, ok := w.snap.visible[edgesync.NamespacedPath(spokeID, p)]
			if !ok || hf.SHA != w.truthSHA[p] {
				continue
			}
			_ = w.hubBE.Delete(ctx, hf.Rel)
			w.compacted[hf.SHA] = p
			var nr int
			_ = w.hubMon.QueryRow(`SELECT COUNT(*) FROM sync_received WHERE spoke_id = ? AND source_path = ?`, spokeID, p).Scan(&nr)
			w.compactedHadReceipt[hf.SHA] = nr > 0
			if nr == 0 {
				w.cnt["hub_files_compacted_without_receipt"]++
			}
			consumed = append(consumed, p)
			w.touch(p, "event hub-compact")
		}
		w.tracef("event hub-compact consumed=%v", consumed)
		if err := w.index.MarkCompacted(ctx, spokeID, consumed); err != nil {
			w.inconcl = "MarkCompacted failed: " + err.Error()
		}
		w.cnt["hub_files_compacted"] += int64(len(consumed))
	case "hub-sweep":
		nRemoved, err := w.receiver.SweepStaging(ctx, 0, time.Now().Add(24*time.Hour))
		w.tracef("event hub-sweep removed=%d err=%v", nRemoved, err)
	case "hub-restart":
		w.tracef("event hub-restart")
		if err := w.openHub(); err != nil {
			w.inconcl = "cannot reopen the hub: " + err.Error()
		}
	default:
		panic("unknown event " + st.Event)
	}
	w.observeHub("after event " + st.Event)
}

// execute runs the whole case: the scripted steps, then fault-free runs to a fixpoint.
func (w *world) execute() {
	for _, st := range w.spec.Steps {
		if w.inconcl != "" {
			return
		}
		if st.Op == "run" {
			w.doRun(st.Faults, st.Restart)
		} else {
			w.doEvent(st)
		}
	}
	w.faultsOn = false
	w.tracef("faults stop")
	converged := false
	for i := 0; i < convergeBound && w.inconcl == ""; i++ {
		before := w.lastSeq
		w.doRun(nil, false)
		w.cnt["fault_free_runs"]++
		if w.lastSeq == before {
			converged = true // a pass that changed no ledger state: deterministic fixpoint
			break
		}
	}
	if w.inconcl != "" {
		return
	}
	rows := w.ledgerRows()
	paths := make([]string, 0, len(rows))
	for p := range rows {
		paths = append(paths, p)
	}
	sort.Strings(paths)
	for _, p := range paths {
		s := rows[p]
		w.cnt["final_state_"+s]++
		if logged := w.state[p]; logged != s {
			w.violate("5", "ledger row state differs from the last logged transition",
				fmt.Sprintf("%s: table says %s, log says %s", p, s, logged), p)
		}
		if !terminal(s) {
			how := "the agent reached a fixpoint"
			if !converged {
				how = fmt.Sprintf("%d fault-free runs did not reach a fixpoint", convergeBound)
			}
			w.violate("4",
				fmt.Sprintf("after faults stopped a discovered file stays %s; the spoke had last seen: %s", s, orNothing(w.lastSeen[p])),
				fmt.Sprintf("%s is %s although %s; faults that touched the file: %s", p, s, how, w.shapeOf(p)), p)
		}
	}
	if converged {
		w.cnt["cases_converged"]++
	}
	// not part of the property, reported as a counter only: spoke files that exist but
	// were never discovered
	for _, p := range w.paths {
		if _, ok := rows[p]; !ok && w.spokeHas(p) {
			w.cnt["existing_spoke_files_never_discovered"]++
		}
	}
}

var errSpokeDead = errors.New("verif: the spoke process has crashed")
