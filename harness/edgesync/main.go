// Harness for the edgesync area: C27 (edge sync delivers each file exactly once
// with verified content).
package main

import (
	"flag"
	"fmt"
	"os"

	"github.com/basekick-labs/arc/internal/zzverif/vlib"
)

func main() {
	prop := flag.String("prop", "", "property id")
	flag.String("replay", "", "replay file")
	bulk := flag.Bool("bulkchild", false, "run the bulk-loss workload (race-detector sub-run)")
	flag.Parse()
	if *bulk {
		bulkChildMain()
		return
	}
	switch *prop {
	case "C27":
		vlib.Main("C27", "fault_enumeration", checkC27)
	default:
		fmt.Println("unknown property", *prop)
		os.Exit(2)
	}
}
