package main

// Family H: the real Agent with MaxConcurrent 2-4. sendAll starts up to MaxConcurrent
// PutFile calls at once; left alone, how far they overlap is up to the scheduler. The
// adapter therefore forces the overlap, deterministically: the PutFile calls of one
// "wave" (as many as the agent can have in flight) are collected at the door, then
// STARTED one after the other in path order — each streams the first half of its body
// into Receiver.Receive and parks — and then RELEASED one after the other, each
// returning to the agent before the next is released. The next wave starts when the
// previous one is through. Waiting is bounded; a wait that runs out only degrades the
// case to an ungated transfer (counted), it is never a verdict.

import (
	"bytes"
	"context"
	"io"
	"sort"
	"sync"
	"time"

	"github.com/basekick-labs/arc/internal/edgesync"
)

const (
	waveCollectWait = 3 * time.Second
	waveStepWait    = 30 * time.Second
	doorWait        = 15 * time.Second
)

type putReq struct {
	path                      string
	entry, parked, gate, done chan struct{}
}

type coordinator struct {
	arrivals  chan *putReq
	stop      chan struct{}
	mu        sync.Mutex
	closed    bool
	remaining int
	maxC      int
	reverse   bool
	waves     int
	overlaps  int // waves in which at least two transfers were parked at the same time
}

func (c *coordinator) isClosed() bool {
	c.mu.Lock()
	defer c.mu.Unlock()
	return c.closed
}

func (c *coordinator) shut() {
	c.mu.Lock()
	if !c.closed {
		c.closed = true
		close(c.stop)
	}
	c.mu.Unlock()
}

func (c *coordinator) loop() {
	defer func() {
		c.mu.Lock()
		c.closed = true
		c.mu.Unlock()
		// let anybody still at the door through, ungated
		for {
			select {
			case r := <-c.arrivals:
				safeClose(r.gate)
				safeClose(r.entry)
			default:
				return
			}
		}
	}()
	for c.remaining > 0 {
		want := c.maxC
		if c.remaining < want {
			want = c.remaining
		}
		var members []*putReq
		timeout := time.After(waveCollectWait)
	collect:
		for len(members) < want {
			select {
			case r := <-c.arrivals:
				members = append(members, r)
			case <-timeout:
				break collect
			case <-c.stop:
				for _, m := range members {
					safeClose(m.gate)
					safeClose(m.entry)
				}
				return
			}
		}
		if len(members) == 0 {
			return
		}
		sort.Slice(members, func(i, j int) bool {
			if c.reverse {
				return members[i].path > members[j].path
			}
			return members[i].path < members[j].path
		})
		parked := 0
		for _, m := range members {
			close(m.entry)
			select {
			case <-m.parked:
				parked++
			case <-m.done:
			case <-time.After(waveStepWait):
			}
		}
		c.mu.Lock()
		c.waves++
		if parked >= 2 {
			c.overlaps++
		}
		c.mu.Unlock()
		for _, m := range members {
			safeClose(m.gate)
			select {
			case <-m.done:
			case <-time.After(waveStepWait):
			}
		}
		c.remaining -= len(members)
	}
}

// startWaves is called (under a.mu) when a reconcile told the agent to send n files.
func (a *adapter) startWaves(n int) {
	a.endWaves()
	if n <= 0 {
		return
	}
	a.coord = &coordinator{arrivals: make(chan *putReq, 256), stop: make(chan struct{}),
		remaining: n, maxC: a.w.maxConcurrent(), reverse: a.w.spec.ReverseRelease}
	go a.coord.loop()
}

// endWaves retires the coordinator of the previous page / run and books its counters.
func (a *adapter) endWaves() {
	if a.coord == nil {
		return
	}
	a.coord.shut()
	a.coord.mu.Lock()
	a.w.cnt["concurrent_waves"] += int64(a.coord.waves)
	a.w.cnt["concurrent_waves_with_two_or_more_parked"] += int64(a.coord.overlaps)
	a.w.overlapWaves += a.coord.overlaps
	a.coord.mu.Unlock()
	a.coord = nil
}

func (a *adapter) overlapWhen() string {
	if a.w.spec.Layout == "same-base" {
		return "after overlapping uploads of files with the same base name in different directories (agent, MaxConcurrent>1)"
	}
	return "after overlapping uploads of files with distinct names (agent, MaxConcurrent>1)"
}

func (a *adapter) putConcurrent(entry *edgesync.LedgerEntry, body io.Reader, offset int64) (*edgesync.PutResult, error) {
	w := a.w
	path, sha, size := entry.Path, entry.SHA256, entry.SizeBytes

	a.mu.Lock()
	w.drainLog()
	if w.run != nil {
		w.run.calls++
		w.run.putN++
	}
	w.cnt["transport_calls_put"]++
	coord := a.coord
	a.mu.Unlock()

	tail, rerr := io.ReadAll(body)
	if rerr != nil {
		a.mu.Lock()
		w.tracef("  put %s: body unreadable on the spoke: %v", path, rerr)
		w.lastSeen[path] = "put error (local read failed)"
		a.mu.Unlock()
		return nil, rerr
	}

	req := &putReq{path: path, entry: make(chan struct{}), parked: make(chan struct{}), gate: make(chan struct{}), done: make(chan struct{})}
	var rd io.Reader = bytes.NewReader(tail)
	gated := coord != nil && !coord.isClosed()
	if gated {
		coord.arrivals <- req
		select {
		case <-req.entry:
			rd = &gatedReader{data: tail, cut: len(tail) / 2, parked: req.parked, gate: req.gate}
		case <-time.After(doorWait):
			gated = false
			safeClose(req.gate)
		}
	}
	res, herr := w.receiver.Receive(context.Background(), spokeID, path, sha, size, offset, rd)

	a.mu.Lock()
	w.cnt["hub_receive_calls"]++
	if gated {
		w.cnt["transport_calls_put_overlapped"]++
	} else {
		w.cnt["transport_calls_put_ungated"]++
	}
	w.tracef("  put %s offset=%d (overlapped=%v): %s", path, offset, gated, describe(res, herr))
	w.observeHub(a.overlapWhen())
	var out *edgesync.PutResult
	var err error
	if herr != nil {
		w.lastSeen[path] = "put error (hub error)"
		err = wireErr("file transfer", herr)
	} else {
		w.lastSeen[path] = "put answered " + string(res.Outcome)
		cp := *res
		out = &cp
	}
	a.mu.Unlock()
	close(req.done)
	return out, err
}
