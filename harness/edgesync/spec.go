package main

// Case space of C27: a case is a set of spoke files plus a schedule of steps
// (agent runs with a fault script addressed per transport call, and between-run
// events on either side), always followed by fault-free runs until a fixpoint.

import (
	"fmt"
	"math/rand/v2"
	"sort"
	"strings"
)

// fault is one scripted transport-level fault, addressed to the N-th call of one
// kind (On: "rec" = SyncTransport.Reconcile, "put" = SyncTransport.PutFile) inside
// one agent run.
//
// PutFile kinds:
//
//	drop-before       request lost: the hub never sees it, the spoke gets an error
//	drop-after        the hub processes the full request (may commit), the answer is lost
//	short             the body ends after Cut bytes; the hub's answer is delivered
//	short-lost        same, and the answer is lost too
//	corrupt           one byte of the body flipped, full length; answer delivered
//	corrupt-short     one byte flipped inside the first Cut bytes, body ends there
//	backpressure      the hub refuses before reading (retry-later answer), hub untouched
//	conflict          a foreign writer put different bytes of the same size at the hub path
//	                  just before the request arrives (only if the hub has neither the file
//	                  nor a receipt); the real hub then answers
//	dup               the request is delivered twice (retransmission); 2nd answer delivered
//	hub-stage-write   hub storage: staging write fails before any byte
//	hub-stage-partial hub storage: staging write fails after half of the bytes
//	hub-promote-write hub storage: write of the final path fails before any byte
//	hub-promote-partial ... fails after half of the bytes (leaves "<final>.part")
//	hub-promote-read  hub storage: reading the verified staging file back fails half-way
//	hub-exists        hub storage: existence check fails
//	hub-index-record  hub receipt index: the INSERT/UPSERT of the receipt fails
//	crash-before      the spoke process dies before the request leaves
//	crash-after       the hub processes the full request; the spoke dies before reading the answer
//
// Reconcile kinds: drop-before, drop-after, hub-exists, hub-index-forget (the DELETE of
// stale receipts fails), too-large (hub refuses the page: split and retry), crash-before,
// crash-after, vanish (spoke file Target is deleted locally right after the hub answered,
// i.e. between reconcile and send).
type fault struct {
	On     string `json:"on"`
	N      int    `json:"n"`
	Kind   string `json:"kind"`
	Cut    string `json:"cut,omitempty"`    // "0" | "1" | "half" | "last"
	Target int    `json:"target,omitempty"` // vanish: file index
}

func (f fault) String() string {
	s := fmt.Sprintf("%s#%d:%s", f.On, f.N, f.Kind)
	if f.Cut != "" {
		s += "@" + f.Cut
	}
	if f.Kind == "vanish" {
		s += fmt.Sprintf("(f%d)", f.Target)
	}
	return s
}

// shape is the seed-independent name of the fault used in signatures.
func (f fault) shape() string { return f.Kind }

// step is one element of a schedule.
//
//	Op "run":   one Agent.Run with the given fault script. Restart = build a new
//	            Ledger+Agent over the same SQLite file first (clean spoke restart).
//	Op "event": something happens between runs:
//	  spoke-vanish   spoke file Target deleted (retention)
//	  spoke-compact  spoke files Target and Target+1 deleted, one new file appears
//	  spoke-new      a new spoke file appears
//	  hub-remove     the hub's copy of spoke file Target deleted (genuine removal; the
//	                 receipt index is not told, as documented in HubIndex.Forget)
//	  hub-compact    the hub's own compaction consumes every verified received file:
//	                 files deleted, content kept in a compacted output, receipts stamped
//	                 with HubIndex.MarkCompacted (what cmd/arc wires in SetOnConsumedInputs)
//	  hub-sweep      Receiver.SweepStaging removes every staged partial
//	  hub-restart    new HubIndex/Receiver/Reconciler objects over the same files
type step struct {
	Op      string  `json:"op"`
	Faults  []fault `json:"faults,omitempty"`
	Restart bool    `json:"restart,omitempty"`
	Event   string  `json:"event,omitempty"`
	Target  int     `json:"target,omitempty"`
}

type caseSpec struct {
	Idx        int    `json:"idx"`
	Family     string `json:"family"`
	Seed       uint64 `json:"content_seed"`
	Sizes      []int  `json:"file_sizes"`
	BatchSize  int    `json:"agent_batch_size"`
	MaxEntries int    `json:"hub_max_reconcile_entries"`
	Steps      []step `json:"steps"`

	// family H: the real Agent with MaxConcurrent = Concurrent (2-4); the adapter forces
	// the transfers of one wave to overlap (see concurrent.go). Layout "same-base" names
	// every spoke file data.parquet (in different directories). ReverseRelease flips the
	// order in which the parked transfers of a wave are started and released.
	Concurrent     int    `json:"agent_max_concurrent,omitempty"`
	Layout         string `json:"file_layout,omitempty"`
	ReverseRelease bool   `json:"reverse_release,omitempty"`

	// family G: overlapping Receive calls driven directly (see overlap.go)
	Overlap *overlapSpec `json:"overlap,omitempty"`
}

func (s *caseSpec) key() string {
	if s.Overlap != nil {
		return s.Overlap.key()
	}
	var b strings.Builder
	if s.Concurrent > 1 {
		fmt.Fprintf(&b, "conc=%d layout=%s rev=%v ", s.Concurrent, s.Layout, s.ReverseRelease)
	}
	fmt.Fprintf(&b, "sizes=%v bs=%d me=%d", s.Sizes, s.BatchSize, s.MaxEntries)
	for _, st := range s.Steps {
		if st.Op == "run" {
			b.WriteString(" run[")
			for i, f := range st.Faults {
				if i > 0 {
					b.WriteByte(' ')
				}
				b.WriteString(f.String())
			}
			b.WriteByte(']')
			if st.Restart {
				b.WriteByte('R')
			}
		} else {
			fmt.Fprintf(&b, " %s(%d)", st.Event, st.Target)
		}
	}
	return b.String()
}

// ── alphabets ───────────────────────────────────────────────────────────

type kindCut struct{ kind, cut string }

var putKinds = []kindCut{
	{"drop-before", ""}, {"drop-after", ""},
	{"short", "0"}, {"short", "1"}, {"short", "half"}, {"short", "last"},
	{"short-lost", "half"},
	{"corrupt", ""}, {"corrupt-short", "half"},
	{"backpressure", ""}, {"conflict", ""}, {"dup", ""},
	{"hub-stage-write", ""}, {"hub-stage-partial", ""},
	{"hub-promote-write", ""}, {"hub-promote-partial", ""}, {"hub-promote-read", ""},
	{"hub-exists", ""}, {"hub-index-record", ""},
	{"crash-before", ""}, {"crash-after", ""},
}

var recKinds = []string{"drop-before", "drop-after", "hub-exists", "hub-index-forget", "too-large", "crash-before", "crash-after"}

var eventKinds = []string{"spoke-vanish", "spoke-compact", "spoke-new", "hub-remove", "hub-compact", "hub-sweep", "hub-restart"}

// sitesFor lists every (call site, fault) of one run over nFiles pending files when
// the run is otherwise fault-free: one Reconcile followed by one PutFile per file.
func sitesFor(nFiles int) []fault {
	var out []fault
	for _, k := range recKinds {
		out = append(out, fault{On: "rec", N: 0, Kind: k})
	}
	for t := 0; t < nFiles; t++ {
		out = append(out, fault{On: "rec", N: 0, Kind: "vanish", Target: t})
	}
	for n := 0; n < nFiles; n++ {
		for _, kc := range putKinds {
			out = append(out, fault{On: "put", N: n, Kind: kc.kind, Cut: kc.cut})
		}
	}
	return out
}

// siteOrder orders call sites inside one fault-free run: rec#0 < put#0 < put#1 ...
func siteOrder(f fault) int {
	if f.On == "rec" {
		return f.N * 1000
	}
	return 1 + f.N
}

// eventsFor lists every (event, target) for nFiles files.
func eventsFor(nFiles int) []step {
	var out []step
	for _, e := range eventKinds {
		switch e {
		case "spoke-vanish", "hub-remove":
			for t := 0; t < nFiles; t++ {
				out = append(out, step{Op: "event", Event: e, Target: t})
			}
		case "spoke-compact":
			for t := 0; t < nFiles; t += 2 {
				out = append(out, step{Op: "event", Event: e, Target: t})
			}
		default:
			out = append(out, step{Op: "event", Event: e})
		}
	}
	return out
}

// exhaustive families use three files: tiny, small, and one larger than io.Copy's
// 32 KiB buffer (several Read calls per stream, several pipe hand-offs).
var enumSizes = []int{3, 300, 40000}

func baseCase(family string, steps ...step) *caseSpec {
	return &caseSpec{Family: family, Seed: 27, Sizes: enumSizes, Steps: steps}
}

func runStep(fs ...fault) step { return step{Op: "run", Faults: fs} }

// buildCases returns the deterministic case list of one tier.
func buildCases(rng *rand.Rand, quick bool) []*caseSpec {
	var cases []*caseSpec
	add := func(c *caseSpec) {
		c.Idx = len(cases)
		cases = append(cases, c)
	}
	n := len(enumSizes)
	sites := sitesFor(n)
	events := eventsFor(n)

	// A: fault-free baseline + every single fault at every transport call of run 1.
	add(baseCase("A-baseline", runStep()))
	for _, f := range sites {
		add(baseCase("A-single", runStep(f)))
	}

	// B: pairs. Same run (two different call sites) and consecutive runs (any two).
	var pairs []*caseSpec
	for _, f1 := range sites {
		for _, f2 := range sites {
			if siteOrder(f1) < siteOrder(f2) {
				pairs = append(pairs, baseCase("B-pair-same-run", runStep(f1, f2)))
			}
			pairs = append(pairs, baseCase("B-pair-next-run", runStep(f1), runStep(f2)))
		}
	}
	if quick {
		pairs = sample(rng, pairs, 2000)
	}
	for _, p := range pairs {
		add(p)
	}

	// C: single fault, then one event on either side (exhaustive), then optionally a
	// second fault in the next run (sampled).
	for _, f1 := range sites {
		for _, ev := range events {
			add(baseCase("C-fault-event", runStep(f1), ev))
		}
	}
	var c3 []*caseSpec
	nC3 := 1000
	if !quick {
		nC3 = 40000
	}
	for i := 0; i < nC3; i++ {
		f1, f2 := sites[rng.IntN(len(sites))], sites[rng.IntN(len(sites))]
		ev := events[rng.IntN(len(events))]
		st2 := runStep(f2)
		st2.Restart = rng.IntN(3) == 0
		c3 = append(c3, baseCase("C-fault-event-fault", runStep(f1), ev, st2))
	}
	for _, p := range c3 {
		add(p)
	}

	// E: the lost-acknowledgement state (hub committed, spoke does not know) followed by
	// one event on either side and one fault at any call of the next run.
	var e3 []*caseSpec
	for j := 0; j < n; j++ {
		for _, k := range []string{"drop-after", "crash-after"} {
			for _, ev := range events {
				for _, f2 := range sites {
					e3 = append(e3, baseCase("E-lost-ack-event-fault", runStep(fault{On: "put", N: j, Kind: k}), ev, runStep(f2)))
				}
			}
		}
	}
	if quick {
		e3 = sample(rng, e3, 600)
	}
	for _, p := range e3 {
		add(p)
	}

	// F: stale receipt at reconcile time (hub committed, answer lost, hub copy removed) with
	// the receipt DELETE failing: too rare to be left to sampling.
	for j := 0; j < n; j++ {
		for _, k := range []string{"drop-after", "crash-after"} {
			add(baseCase("F-stale-receipt-forget-fails",
				runStep(fault{On: "put", N: j, Kind: k}),
				step{Op: "event", Event: "hub-remove", Target: n - 1 - j}, // put#j carries the j-th newest file
				runStep(fault{On: "rec", N: 0, Kind: "hub-index-forget"})))
		}
	}

	// G: overlapping uploads against the hub objects directly (exhaustive, seed-independent)
	for _, g := range overlapCases() {
		add(g)
	}

	// H: the real Agent with 2-4 concurrent transfers whose overlap the adapter forces
	for _, h := range concurrentCases() {
		add(h)
	}

	// D: random histories: 2-6 files of assorted sizes, 2-6 runs with 0-2 faults each,
	// random events between runs, paging (agent batch size) and hub reconcile cap varied.
	nD := 1600
	if !quick {
		nD = 60000
	}
	sizes := []int{1, 2, 17, 300, 5000, 33000, 70000}
	for i := 0; i < nD; i++ {
		c := &caseSpec{Family: "D-random-history", Seed: rng.Uint64()}
		nf := 2 + rng.IntN(5)
		for j := 0; j < nf; j++ {
			c.Sizes = append(c.Sizes, sizes[rng.IntN(len(sizes))])
		}
		if rng.IntN(6) == 0 {
			c.Sizes[rng.IntN(nf)] = 0 // at most one empty file (content must stay unique)
		}
		switch rng.IntN(4) {
		case 0:
			c.BatchSize = 2
		case 1:
			c.MaxEntries = 2
		}
		nRuns := 2 + rng.IntN(5)
		for r := 0; r < nRuns; r++ {
			st := step{Op: "run", Restart: rng.IntN(4) == 0}
			for k := rng.IntN(3); k > 0; k-- {
				st.Faults = append(st.Faults, randomFault(rng, nf))
			}
			sort.SliceStable(st.Faults, func(a, b int) bool { return siteOrder(st.Faults[a]) < siteOrder(st.Faults[b]) })
			c.Steps = append(c.Steps, st)
			if r < nRuns-1 && rng.IntN(2) == 0 {
				ev := step{Op: "event", Event: eventKinds[rng.IntN(len(eventKinds))], Target: rng.IntN(nf)}
				c.Steps = append(c.Steps, ev)
			}
		}
		add(c)
	}
	return cases
}

func randomFault(rng *rand.Rand, nFiles int) fault {
	if rng.IntN(4) == 0 {
		k := rng.IntN(len(recKinds) + 1)
		if k == len(recKinds) {
			return fault{On: "rec", N: rng.IntN(2), Kind: "vanish", Target: rng.IntN(nFiles)}
		}
		return fault{On: "rec", N: rng.IntN(2), Kind: recKinds[k]}
	}
	kc := putKinds[rng.IntN(len(putKinds))]
	return fault{On: "put", N: rng.IntN(nFiles), Kind: kc.kind, Cut: kc.cut}
}

// sample picks n elements without replacement, preserving their relative order.
func sample[T any](rng *rand.Rand, in []T, n int) []T {
	if n >= len(in) {
		return in
	}
	idx := rng.Perm(len(in))[:n]
	sort.Ints(idx)
	out := make([]T, 0, n)
	for _, i := range idx {
		out = append(out, in[i])
	}
	return out
}

// concurrentCases is the (seed-independent) list of family H.
func concurrentCases() []*caseSpec {
	var out []*caseSpec
	sizeSets := [][]int{{300, 5000}, {5000, 300, 40000}, {300, 300, 300, 300}, {40000, 5000, 300, 17, 5000}, {5000, 5000, 5000, 5000, 5000, 5000}}
	for _, layout := range []string{"same-base", ""} {
		for conc := 2; conc <= 4; conc++ {
			for _, sizes := range sizeSets {
				for _, rev := range []bool{false, true} {
					for _, bs := range []int{0, 3} {
						if bs != 0 && len(sizes) <= bs {
							continue
						}
						// a second run with a new file and a clean restart: the later passes
						// overlap too (re-sends after a failed overlapped transfer)
						out = append(out, &caseSpec{Family: "H-agent-concurrent", Seed: 27, Sizes: sizes,
							Concurrent: conc, Layout: layout, ReverseRelease: rev, BatchSize: bs,
							Steps: []step{runStep(), {Op: "event", Event: "spoke-new"}, {Op: "run", Restart: true}}})
					}
				}
			}
		}
	}
	return out
}
