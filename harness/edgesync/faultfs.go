package main

// faultfs: a fault-injecting storage.Backend wrapper for the HUB's storage
// (adapted from harness/backup/faultfs.go). It forwards every call to a real
// storage.LocalBackend and fails exactly one call — the first one matching the
// armed rule — so that one scripted "hub storage error" hits one precise step of
// Receiver.Receive / Reconciler.Reconcile (staging write, promote write, promote
// read, existence check). It implements every optional interface the receive path
// type-asserts (AppendingBackend for resume, ObjectLister for SweepStaging).

import (
	"context"
	"errors"
	"fmt"
	"io"
	"strings"
	"sync"

	"github.com/basekick-labs/arc/internal/storage"
)

var errInjected = errors.New("faultfs: injected hub storage failure")

// fsRule selects the one call to fail.
//
//	Op:      "write" (WriteReader/AppendReader) | "read" (ReadTo) | "exists" (Exists)
//	Prefix:  storage path prefix the call must have ("" = any)
//	NoPart:  the path must not end in ".part" (promote reads the finished staging file,
//	         the resume re-hash reads the ".part")
//	Mode:    "error" fail before touching the inner backend
//	         "partial" deliver half of the bytes, then fail (write: LocalBackend keeps
//	         its "<path>.part"; read: the consumer sees a short stream and an error)
type fsRule struct {
	Op     string
	Prefix string
	NoPart bool
	Mode   string
}

type faultFS struct {
	inner storage.Backend

	mu    sync.Mutex
	rule  *fsRule
	fired int
	calls map[string]int64
}

func newFaultFS(inner storage.Backend) *faultFS {
	return &faultFS{inner: inner, calls: map[string]int64{}}
}

// arm installs a one-shot rule (replacing any previous one).
func (f *faultFS) arm(r fsRule) {
	f.mu.Lock()
	f.rule, f.fired = &r, 0
	f.mu.Unlock()
}

// disarm removes the rule and reports whether it fired.
func (f *faultFS) disarm() bool {
	f.mu.Lock()
	defer f.mu.Unlock()
	fired := f.fired > 0
	f.rule, f.fired = nil, 0
	return fired
}

// take reports the mode of the armed rule if this call matches it (and consumes it).
func (f *faultFS) take(op, path string) (string, bool) {
	f.mu.Lock()
	defer f.mu.Unlock()
	f.calls[op]++
	r := f.rule
	if r == nil || r.Op != op || !strings.HasPrefix(path, r.Prefix) {
		return "", false
	}
	if r.NoPart && strings.HasSuffix(path, ".part") {
		return "", false
	}
	f.rule = nil
	f.fired++
	return r.Mode, true
}

func (f *faultFS) inj(op, path string) error {
	return fmt.Errorf("%w: %s %s", errInjected, op, path)
}

type breakingReader struct {
	r   io.Reader
	err error
}

func (b *breakingReader) Read(p []byte) (int, error) {
	n, err := b.r.Read(p)
	if err == io.EOF {
		return n, b.err
	}
	return n, err
}

// ── storage.Backend ─────────────────────────────────────────────────────

func (f *faultFS) Write(ctx context.Context, path string, data []byte) error {
	return f.inner.Write(ctx, path, data)
}

func (f *faultFS) WriteReader(ctx context.Context, path string, reader io.Reader, size int64) error {
	if mode, ok := f.take("write", path); ok {
		err := f.inj("WriteReader", path)
		if mode == "partial" {
			ierr := f.inner.WriteReader(ctx, path, &breakingReader{r: io.LimitReader(reader, size/2), err: err}, size)
			if ierr == nil {
				ierr = err
			}
			return ierr
		}
		return err
	}
	return f.inner.WriteReader(ctx, path, reader, size)
}

func (f *faultFS) AppendReader(ctx context.Context, path string, r io.Reader, n int64) error {
	ab, ok := f.inner.(storage.AppendingBackend)
	if !ok {
		return storage.ErrResumeNotSupported
	}
	if mode, ok := f.take("write", path); ok {
		err := f.inj("AppendReader", path)
		if mode == "partial" {
			ierr := ab.AppendReader(ctx, path, &breakingReader{r: io.LimitReader(r, n/2), err: err}, n)
			if ierr == nil {
				ierr = err
			}
			return ierr
		}
		return err
	}
	return ab.AppendReader(ctx, path, r, n)
}

func (f *faultFS) Read(ctx context.Context, path string) ([]byte, error) {
	return f.inner.Read(ctx, path)
}

func (f *faultFS) ReadTo(ctx context.Context, path string, w io.Writer) error {
	if mode, ok := f.take("read", path); ok {
		err := f.inj("ReadTo", path)
		if mode == "partial" {
			if b, rerr := f.inner.Read(ctx, path); rerr == nil {
				_, _ = w.Write(b[:len(b)/2])
			}
		}
		return err
	}
	return f.inner.ReadTo(ctx, path, w)
}

func (f *faultFS) ReadToAt(ctx context.Context, path string, w io.Writer, off int64) error {
	return f.inner.ReadToAt(ctx, path, w, off)
}

func (f *faultFS) StatFile(ctx context.Context, path string) (int64, error) {
	return f.inner.StatFile(ctx, path)
}

func (f *faultFS) List(ctx context.Context, prefix string) ([]string, error) {
	return f.inner.List(ctx, prefix)
}

func (f *faultFS) Delete(ctx context.Context, path string) error {
	return f.inner.Delete(ctx, path)
}

func (f *faultFS) Exists(ctx context.Context, path string) (bool, error) {
	if _, ok := f.take("exists", path); ok {
		return false, f.inj("Exists", path)
	}
	return f.inner.Exists(ctx, path)
}

func (f *faultFS) Close() error       { return f.inner.Close() }
func (f *faultFS) Type() string       { return f.inner.Type() }
func (f *faultFS) ConfigJSON() string { return f.inner.ConfigJSON() }

func (f *faultFS) ListObjects(ctx context.Context, prefix string) ([]storage.ObjectInfo, error) {
	ol, ok := f.inner.(storage.ObjectLister)
	if !ok {
		return nil, errors.New("faultfs: inner backend cannot list objects")
	}
	return ol.ListObjects(ctx, prefix)
}

var (
	_ storage.Backend          = (*faultFS)(nil)
	_ storage.ObjectLister     = (*faultFS)(nil)
	_ storage.AppendingBackend = (*faultFS)(nil)
)
