package main

// Family G: overlapping uploads driven directly against the real hub objects.
//
// Several Receiver.Receive calls run at the same time over one real LocalBackend and
// one real HubIndex. Each body is a gated reader: it delivers the first half of its
// bytes, then parks until the schedule releases it. The schedule forces the
// interleaving: transfers are STARTED one after the other (each is parked mid-stream
// before the next starts) and then RELEASED one after the other (each has returned
// before the next is released), in every order. A transfer may be the RESUMPTION of an
// earlier short upload. Afterwards every unfinished file is re-sent sequentially the
// way the agent would (following the hub's answers). The file-name layouts include
// equal base names in different directories, equal full paths in different spokes
// (must not collide) and distinct names. Same oracles as the serial families.

import (
	"bytes"
	"context"
	"database/sql"
	"fmt"
	"io"
	"os"
	"path/filepath"
	"sort"
	"strings"
	"sync"
	"time"

	"github.com/basekick-labs/arc/internal/edgesync"
	"github.com/basekick-labs/arc/internal/storage"
	"github.com/basekick-labs/arc/internal/zzverif/vlib"
	"github.com/rs/zerolog"
)

type ovFile struct {
	Spoke string `json:"spoke"`
	Path  string `json:"path"`
	Size  int    `json:"size"`
}

// ovTransfer is one overlapped Receive call for file File. Resume: a short upload of
// the first third happened (sequentially) before, this call carries the tail.
type ovTransfer struct {
	File   int  `json:"file"`
	Resume bool `json:"resume,omitempty"`
}

type overlapSpec struct {
	Layout    string       `json:"layout"`
	Files     []ovFile     `json:"files"`
	Transfers []ovTransfer `json:"transfers"` // started in this order
	Release   []int        `json:"release"`   // transfer indices, released in this order
}

func (o *overlapSpec) key() string {
	var b strings.Builder
	fmt.Fprintf(&b, "overlap %s", o.Layout)
	for _, f := range o.Files {
		fmt.Fprintf(&b, " %s:%s(%d)", f.Spoke, f.Path, f.Size)
	}
	for _, t := range o.Transfers {
		fmt.Fprintf(&b, " t%d", t.File)
		if t.Resume {
			b.WriteString("r")
		}
	}
	fmt.Fprintf(&b, " release=%v", o.Release)
	return b.String()
}

// layoutRelation names, for signatures, how the overlapped files relate.
var layoutRelation = map[string]string{
	"same-base-diff-hour":        "overlapping uploads of files with the same base name in different partition directories",
	"same-base-diff-measurement": "overlapping uploads of files with the same base name in different measurements",
	"same-base-diff-database":    "overlapping uploads of files with the same base name in different databases",
	"same-path-diff-spoke":       "overlapping uploads of files with the same path from different spokes",
	"distinct-names":             "overlapping uploads of files with distinct names in one directory",
	"same-file-twice":            "two overlapping uploads of the same file",
}

func layoutFiles(layout string, sizes []int) []ovFile {
	var out []ovFile
	for i, sz := range sizes {
		f := ovFile{Spoke: spokeID, Size: sz}
		switch layout {
		case "same-base-diff-hour":
			f.Path = fmt.Sprintf("db0/cpu/2026/08/07/%02d/data.parquet", 14+i)
		case "same-base-diff-measurement":
			f.Path = fmt.Sprintf("db0/m%d/2026/08/07/14/data.parquet", i)
		case "same-base-diff-database":
			f.Path = fmt.Sprintf("db%d/cpu/2026/08/07/14/data.parquet", i)
		case "same-path-diff-spoke":
			f.Spoke = fmt.Sprintf("rocket-%02d", i+1)
			f.Path = "db0/cpu/2026/08/07/14/data.parquet"
		case "distinct-names":
			f.Path = fmt.Sprintf("db0/cpu/2026/08/07/14/file%d.parquet", i)
		case "same-file-twice":
			f.Path = "db0/cpu/2026/08/07/14/data.parquet"
		}
		out = append(out, f)
	}
	if layout == "same-file-twice" {
		out = out[:1]
	}
	return out
}

// overlapCases is the (seed-independent) exhaustive list of family G.
func overlapCases() []*caseSpec {
	var out []*caseSpec
	add := func(o *overlapSpec) {
		out = append(out, &caseSpec{Family: "G-overlap-direct", Seed: 27, Overlap: o})
	}
	layouts := []string{"same-base-diff-hour", "same-base-diff-measurement", "same-base-diff-database",
		"same-path-diff-spoke", "distinct-names", "same-file-twice"}
	sizePairs := [][]int{{300, 300}, {300, 5000}, {5000, 300}, {40000, 5000}, {5000, 40000}}
	for _, l := range layouts {
		for _, sp := range sizePairs {
			files := layoutFiles(l, sp)
			second := 1
			if l == "same-file-twice" {
				second = 0
			}
			for resume := 0; resume < 3; resume++ {
				for _, rel := range [][]int{{0, 1}, {1, 0}} {
					add(&overlapSpec{Layout: l, Files: files,
						Transfers: []ovTransfer{{File: 0, Resume: resume == 1}, {File: second, Resume: resume == 2}},
						Release:   rel})
				}
			}
		}
	}
	// three transfers at once
	perms := [][]int{{0, 1, 2}, {0, 2, 1}, {1, 0, 2}, {1, 2, 0}, {2, 0, 1}, {2, 1, 0}}
	for _, l := range []string{"same-base-diff-hour", "same-base-diff-measurement", "same-path-diff-spoke", "distinct-names"} {
		for _, sz := range [][]int{{300, 5000, 40000}, {5000, 5000, 5000}} {
			for _, rel := range perms {
				add(&overlapSpec{Layout: l, Files: layoutFiles(l, sz),
					Transfers: []ovTransfer{{File: 0}, {File: 1}, {File: 2}}, Release: rel})
			}
		}
	}
	return out
}

// gatedReader delivers data[:cut], then parks until gate is closed, then the rest.
type gatedReader struct {
	data   []byte
	pos    int
	cut    int
	parked chan struct{}
	gate   chan struct{}
	once   sync.Once
}

func (g *gatedReader) Read(p []byte) (int, error) {
	if g.pos < g.cut {
		n := copy(p, g.data[g.pos:g.cut])
		g.pos += n
		return n, nil
	}
	// the bytes delivered so far have been consumed (io.Copy writes before it reads again)
	g.once.Do(func() { close(g.parked) })
	<-g.gate
	if g.pos >= len(g.data) {
		return 0, io.EOF
	}
	n := copy(p, g.data[g.pos:])
	g.pos += n
	return n, nil
}

type ovWorld struct {
	spec     *overlapSpec
	dir      string
	root     string
	be       *storage.LocalBackend
	db, mon  *sql.DB
	index    *edgesync.HubIndex
	receiver *edgesync.Receiver
	data     [][]byte
	sha      []string
	byRel    map[string]int // "<spoke>/<path>" -> file index
	trace    []string
	finds    []finding
	cnt      map[string]int64
	inconcl  string
}

func (w *ovWorld) tracef(format string, a ...any) {
	if len(w.trace) < 400 {
		w.trace = append(w.trace, fmt.Sprintf(format, a...))
	}
}

func (w *ovWorld) violate(clause, sig, what, path string) {
	for _, f := range w.finds {
		if f.Sig == sig || (f.Clause == clause && f.Path == path) {
			return
		}
	}
	w.tracef("VIOLATION %s: %s", clause, what)
	w.finds = append(w.finds, finding{Sig: sig, Clause: clause, What: what, Path: path})
}

func (w *ovWorld) relation() string {
	r := layoutRelation[w.spec.Layout]
	for _, t := range w.spec.Transfers {
		if t.Resume {
			return r + " (one of them resuming an earlier partial upload)"
		}
	}
	return r
}

func (w *ovWorld) rel(i int) string {
	return edgesync.NamespacedPath(w.spec.Files[i].Spoke, w.spec.Files[i].Path)
}

// observe checks clauses 1 and 2 on the hub as it is now and returns the snapshot.
func (w *ovWorld) observe(when string) *hubSnap {
	s := snapshotRoot(w.root)
	w.cnt["hub_observations"]++
	byContent := map[string][]string{}
	rels := make([]string, 0, len(s.visible))
	for r := range s.visible {
		rels = append(rels, r)
	}
	sort.Strings(rels)
	for _, r := range rels {
		hf := s.visible[r]
		w.cnt["hub_files_compared"]++
		i, ok := w.byRel[r]
		if !ok {
			w.violate("2", "hub stores a received file at a path no spoke file maps to, after "+w.relation(),
				fmt.Sprintf("%s: unexpected hub file %q", when, r), r)
			continue
		}
		if hf.SHA != w.sha[i] {
			w.violate("1",
				"hub exposes a file whose bytes differ from the spoke's after "+w.relation(),
				fmt.Sprintf("%s: hub file %q holds %s: sha256 %s (%d bytes), the spoke's is %s (%d bytes)", when, r, classifyDiff(hf.data, w.data[i]), hf.SHA, hf.Size, w.sha[i], len(w.data[i])), r)
			continue
		}
		w.cnt["hub_files_identical"]++
		byContent[hf.SHA] = append(byContent[hf.SHA], r)
	}
	for sha, ps := range byContent {
		if len(ps) > 1 {
			w.violate("2", "hub holds two visible copies of one spoke file after "+w.relation(),
				fmt.Sprintf("%s: content %s stored at %v", when, sha, ps), ps[0])
		}
	}
	rows, err := w.mon.Query(`SELECT spoke_id, source_path, hub_path, COUNT(*) FROM sync_received GROUP BY spoke_id, source_path`)
	if err != nil {
		w.inconcl = "hub index unreadable: " + err.Error()
		return s
	}
	defer rows.Close()
	for rows.Next() {
		var sp, src, hp string
		var n int
		if rows.Scan(&sp, &src, &hp, &n) != nil {
			continue
		}
		w.cnt["hub_receipts_checked"]++
		if n > 1 || hp != edgesync.NamespacedPath(sp, src) {
			w.violate("2", "hub receipt index inconsistent (duplicate row or foreign hub_path) after "+w.relation(),
				fmt.Sprintf("%s: %d receipts for %s/%s, hub_path=%q", when, n, sp, src, hp), src)
		}
	}
	return s
}

// ack checks clause 3 for a hub answer on which the spoke would mark the file synced.
func (w *ovWorld) ack(i int, res *edgesync.PutResult, s *hubSnap, when string) {
	if res == nil || !res.Outcome.Done() {
		return
	}
	w.cnt["acks_checked"]++
	for _, f := range w.finds {
		if f.Clause == "1" && f.Path == w.rel(i) {
			return // the same observation is already reported under clause 1
		}
	}
	hf, ok := s.visible[w.rel(i)]
	switch {
	case !ok:
		w.violate("3", fmt.Sprintf("hub answered %s (spoke marks synced) while it holds no such file, after %s", res.Outcome, w.relation()),
			fmt.Sprintf("%s: %s answered %s but is absent", when, w.rel(i), res.Outcome), w.rel(i))
	case hf.SHA != w.sha[i]:
		w.violate("3", fmt.Sprintf("hub answered %s (spoke marks synced) while it holds different bytes at that path, after %s", res.Outcome, w.relation()),
			fmt.Sprintf("%s: %s answered %s but holds sha256 %s, spoke has %s", when, w.rel(i), res.Outcome, hf.SHA, w.sha[i]), w.rel(i))
	default:
		w.cnt["acks_with_identical_hub_content"]++
	}
}

func (w *ovWorld) receive(i int, offset int64, body io.Reader) (*edgesync.PutResult, error) {
	f := w.spec.Files[i]
	w.cnt["hub_receive_calls"]++
	return w.receiver.Receive(context.Background(), f.Spoke, f.Path, w.sha[i], int64(f.Size), offset, body)
}

func describe(res *edgesync.PutResult, err error) string {
	if err != nil {
		return "error: " + err.Error()
	}
	return fmt.Sprintf("%s accepted=%d", res.Outcome, res.BytesAccepted)
}

const overlapWatchdog = 30 * time.Second

func runOverlapCase(spec *caseSpec) (res *caseResult) {
	res = &caseResult{spec: spec}
	o := spec.Overlap
	w := &ovWorld{spec: o, dir: vlib.TempDir("c27ov"), cnt: map[string]int64{}, byRel: map[string]int{}}
	defer func() {
		if r := recover(); r != nil {
			res.panicV, res.inconcl = r, fmt.Sprintf("panic: %v", r)
		}
		res.finds, res.cnt, res.trace = w.finds, w.cnt, w.trace
		if res.inconcl == "" {
			res.inconcl = w.inconcl
		}
		res.fired = 1
		if w.db != nil {
			w.db.Close()
		}
		if w.mon != nil {
			w.mon.Close()
		}
		os.RemoveAll(w.dir)
	}()
	w.root = filepath.Join(w.dir, "hub")
	var err error
	fail := func(e error) *caseResult { res.inconcl = "cannot build the hub: " + e.Error(); return res }
	if w.be, err = storage.NewLocalBackend(w.root, zerolog.Nop()); err != nil {
		return fail(err)
	}
	dbPath := filepath.Join(w.dir, "hub-index.db")
	if w.db, err = openSQLite(dbPath); err != nil {
		return fail(err)
	}
	if w.index, err = edgesync.NewHubIndex(w.db, zerolog.Nop()); err != nil {
		return fail(err)
	}
	if w.mon, err = openSQLite(dbPath); err != nil {
		return fail(err)
	}
	if w.receiver, err = edgesync.NewReceiver(edgesync.ReceiverConfig{Backend: w.be, Index: w.index, Logger: zerolog.Nop()}); err != nil {
		return fail(err)
	}
	for i, f := range o.Files {
		d := genContent(spec.Seed, i, f.Size)
		w.data = append(w.data, d)
		w.sha = append(w.sha, shaHex(d))
		w.byRel[w.rel(i)] = i
	}

	// phase 0: the short uploads that the resumed transfers continue
	offsets := make([]int64, len(o.Transfers))
	for t, tr := range o.Transfers {
		if !tr.Resume {
			continue
		}
		d := w.data[tr.File]
		r, e := w.receive(tr.File, 0, bytes.NewReader(d[:len(d)/3]))
		w.tracef("short upload %s: %s", w.rel(tr.File), describe(r, e))
		if e == nil && r.Outcome == edgesync.OutcomePartial {
			offsets[t] = r.BytesAccepted
		}
		w.observe("after a short upload")
	}

	// phase 1: start the transfers one after the other; each parks mid-stream
	type inflight struct {
		gr   *gatedReader
		done chan struct{}
		res  *edgesync.PutResult
		err  error
	}
	fl := make([]*inflight, len(o.Transfers))
	for t, tr := range o.Transfers {
		tail := w.data[tr.File][offsets[t]:]
		f := &inflight{gr: &gatedReader{data: tail, cut: len(tail) / 2, parked: make(chan struct{}), gate: make(chan struct{})}, done: make(chan struct{})}
		fl[t] = f
		go func(file int, off int64) {
			defer close(f.done)
			f.res, f.err = w.receive(file, off, f.gr)
		}(tr.File, offsets[t])
		select {
		case <-f.gr.parked:
			w.cnt["transfers_parked_mid_stream"]++
			w.tracef("start t%d %s offset=%d: parked after %d of %d bytes", t, w.rel(tr.File), offsets[t], f.gr.cut, len(tail))
		case <-f.done:
			w.tracef("start t%d %s offset=%d: answered at once: %s", t, w.rel(tr.File), offsets[t], describe(f.res, f.err))
		case <-time.After(overlapWatchdog):
			w.inconcl = "transfer neither parked nor returned"
			for _, g := range fl {
				if g != nil {
					safeClose(g.gr.gate)
				}
			}
			return res
		}
		w.observe("while uploads are parked mid-stream")
	}

	// phase 2: release them one after the other
	last := make([]*edgesync.PutResult, len(o.Files))
	lastErr := make([]error, len(o.Files))
	for _, t := range o.Release {
		f := fl[t]
		safeClose(f.gr.gate)
		select {
		case <-f.done:
		case <-time.After(overlapWatchdog):
			w.inconcl = "released transfer did not return"
			for _, g := range fl {
				safeClose(g.gr.gate)
			}
			return res
		}
		file := o.Transfers[t].File
		w.cnt["overlapped_transfers"]++
		w.tracef("release t%d %s: %s", t, w.rel(file), describe(f.res, f.err))
		s := w.observe("after an overlapped upload returned")
		w.ack(file, f.res, s, "after an overlapped upload returned")
		if last[file] == nil || !last[file].Outcome.Done() {
			last[file], lastErr[file] = f.res, f.err
		}
	}

	// phase 3: what the agent's later passes do: re-send whatever is not done yet
	for i := range o.Files {
		r, e := last[i], lastErr[i]
		for attempt := 0; attempt < 6; attempt++ {
			if e == nil && r != nil && (r.Outcome.Done() || r.Outcome == edgesync.OutcomeConflict) {
				break
			}
			var off int64
			if e == nil && r != nil && r.Outcome == edgesync.OutcomePartial {
				off = r.BytesAccepted
			}
			r, e = w.receive(i, off, bytes.NewReader(w.data[i][off:]))
			w.cnt["sequential_retries"]++
			w.tracef("retry %s offset=%d: %s", w.rel(i), off, describe(r, e))
			s := w.observe("after a sequential retry")
			w.ack(i, r, s, "after a sequential retry")
		}
		switch {
		case e != nil:
			w.cnt["files_ending_in_error"]++
		case r.Outcome.Done():
			w.cnt["files_ending_delivered"]++
		default:
			w.cnt["files_ending_"+string(r.Outcome)]++
		}
	}
	w.observe("at the end")
	return res
}

func safeClose(c chan struct{}) {
	defer func() { _ = recover() }()
	close(c)
}
