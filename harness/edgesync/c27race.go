package main

// Bulk-loss family + race-detector sub-run. Every other C27 case has 2-6 files, so a
// reconcile batch holds at most a few receipts and the hub's concurrent existence
// checks (up to 32 at a time) never contend. Here one spoke has hundreds of files whose
// uploads were committed by the hub while every acknowledgement was lost (all stay
// pending on the spoke), then the hub loses all of its copies while the receipts
// remain, and a fault-free pass follows: the reconcile batch now carries hundreds of
// stale receipts at once. Behavioural oracle: a file the spoke marks synced is held
// by the hub with the spoke's bytes. The same workload is run by the -race build of
// this harness; a data race whose frames are in internal/edgesync is reported.

import (
	"bytes"
	"context"
	"database/sql"
	"encoding/json"
	"errors"
	"fmt"
	"io"
	"os"
	"os/exec"
	"path/filepath"
	"regexp"
	"sort"
	"strings"
	"sync/atomic"
	"time"

	"github.com/basekick-labs/arc/internal/edgesync"
	"github.com/basekick-labs/arc/internal/storage"
	"github.com/basekick-labs/arc/internal/zzverif/vlib"
	"github.com/rs/zerolog"
)

const bulkSpoke = "spoke-bulk"

type bulkTransport struct {
	recv     *edgesync.Receiver
	rec      *edgesync.Reconciler
	dropAcks atomic.Bool
}

func (tr *bulkTransport) Reconcile(ctx context.Context, hubID string, pending []*edgesync.LedgerEntry) (*edgesync.ReconcileResult, error) {
	entries := make([]edgesync.ReconcileEntry, 0, len(pending))
	for _, e := range pending {
		entries = append(entries, edgesync.ReconcileEntry{Path: e.Path, SHA256: e.SHA256, SizeBytes: e.SizeBytes})
	}
	return tr.rec.Reconcile(ctx, bulkSpoke, entries)
}

func (tr *bulkTransport) PutFile(ctx context.Context, hubID string, e *edgesync.LedgerEntry, body io.Reader, offset int64) (*edgesync.PutResult, error) {
	res, err := tr.recv.Receive(ctx, bulkSpoke, e.Path, e.SHA256, e.SizeBytes, offset, body)
	if err != nil {
		return nil, err
	}
	if tr.dropAcks.Load() && res.Outcome.Done() {
		return nil, errors.New("connection reset before the acknowledgement arrived")
	}
	return res, nil
}

type bulkOut struct {
	Rounds        int    `json:"rounds"`
	Files         int    `json:"files_per_round"`
	StaleReceipts int    `json:"stale_receipts_in_the_reconcile_batches"`
	Synced        int    `json:"files_marked_synced"`
	Bad           int    `json:"synced_on_the_spoke_but_not_held_by_the_hub"`
	Example       string `json:"example,omitempty"`
	Err           string `json:"err,omitempty"`
}

func bulkOpenDB(path string) (*sql.DB, error) {
	db, err := sql.Open("sqlite3", path+"?_busy_timeout=10000&_journal_mode=MEMORY")
	if err != nil {
		return nil, err
	}
	db.SetMaxOpenConns(1)
	_, _ = db.Exec("PRAGMA synchronous = OFF")
	return db, nil
}

func bulkRound(round, files int, out *bulkOut) error {
	ctx, cancel := context.WithTimeout(context.Background(), 4*time.Minute)
	defer cancel()
	root := vlib.TempDir("c27bulk")
	defer os.RemoveAll(root)
	spokeBackend, err := storage.NewLocalBackend(filepath.Join(root, "spoke"), zerolog.Nop())
	if err != nil {
		return err
	}
	defer spokeBackend.Close()
	hubBackend, err := storage.NewLocalBackend(filepath.Join(root, "hub"), zerolog.Nop())
	if err != nil {
		return err
	}
	defer hubBackend.Close()
	sdb, err := bulkOpenDB(filepath.Join(root, "spoke.db"))
	if err != nil {
		return err
	}
	defer sdb.Close()
	hdb, err := bulkOpenDB(filepath.Join(root, "hub.db"))
	if err != nil {
		return err
	}
	defer hdb.Close()
	ledger, err := edgesync.NewLedger(sdb, zerolog.Nop())
	if err != nil {
		return err
	}
	index, err := edgesync.NewHubIndex(hdb, zerolog.Nop())
	if err != nil {
		return err
	}
	recv, err := edgesync.NewReceiver(edgesync.ReceiverConfig{Backend: hubBackend, Index: index, Logger: zerolog.Nop()})
	if err != nil {
		return err
	}
	rec, err := edgesync.NewReconciler(edgesync.ReconcilerConfig{Index: index, Backend: hubBackend})
	if err != nil {
		return err
	}
	tr := &bulkTransport{recv: recv, rec: rec}
	agent, err := edgesync.NewAgent(edgesync.AgentConfig{Ledger: ledger, Transport: tr, Backend: spokeBackend, SpokeID: bulkSpoke, MaxConcurrent: 16, Logger: zerolog.Nop()})
	if err != nil {
		return err
	}
	contents := make(map[string][]byte, files)
	for i := 0; i < files; i++ {
		p := fmt.Sprintf("metrics/cpu/2026/08/07/14/cpu_%05d.parquet", i)
		b := []byte(fmt.Sprintf("round %d payload %05d %s", round, i, strings.Repeat("x", i%17)))
		contents[p] = b
		if err := spokeBackend.Write(ctx, p, b); err != nil {
			return err
		}
	}
	tr.dropAcks.Store(true)
	if _, err := agent.Run(ctx); err != nil {
		return fmt.Errorf("pass 1: %w", err)
	}
	tr.dropAcks.Store(false)
	n, err := index.CountForSpoke(ctx, bulkSpoke)
	if err != nil {
		return err
	}
	out.StaleReceipts += int(n)
	for p := range contents {
		if err := hubBackend.Delete(ctx, edgesync.NamespacedPath(bulkSpoke, p)); err != nil {
			return err
		}
	}
	if _, err := agent.Run(ctx); err != nil {
		return fmt.Errorf("pass 2: %w", err)
	}
	for p, want := range contents {
		e, err := ledger.Get(ctx, edgesync.DefaultHubID, p)
		if err != nil {
			return err
		}
		if e.State != edgesync.StateSynced {
			continue
		}
		out.Synced++
		got, err := hubBackend.Read(ctx, edgesync.NamespacedPath(bulkSpoke, p))
		if err != nil || !bytes.Equal(got, want) {
			out.Bad++
			if out.Example == "" {
				out.Example = p
			}
		}
	}
	return nil
}

func bulkRun(rounds, files int) bulkOut {
	out := bulkOut{Rounds: rounds, Files: files}
	for r := 1; r <= rounds; r++ {
		if err := bulkRound(r, files, &out); err != nil {
			out.Err = err.Error()
			break
		}
	}
	return out
}

// bulkChildMain runs inside the -race build.
func bulkChildMain() {
	rounds, files := 2, 300
	if os.Getenv("VERIF_TIER") == "thorough" {
		rounds, files = 6, 600
	}
	b, _ := json.Marshal(bulkRun(rounds, files))
	fmt.Println("BULKCHILD " + string(b))
}

var bulkRaceFrame = regexp.MustCompile(`^\s{2}(\S+)\(`)

func bulkFamily(c *vlib.Ctx) {
	// (1) plain build: behavioural oracle on larger batches
	rounds, files := 3, 1500
	if !c.Quick() {
		rounds, files = 12, 3000
	}
	o := bulkRun(rounds, files)
	if o.Err != "" {
		c.Inconclusive("bulk-loss family: " + o.Err)
	} else {
		c.Eval()
		c.Count("bulk_loss_rounds", int64(o.Rounds))
		c.Count("bulk_loss_stale_receipts_in_reconcile_batches", int64(o.StaleReceipts))
		c.Count("bulk_loss_files_marked_synced_and_verified", int64(o.Synced))
		if o.StaleReceipts > 0 {
			c.Nontrivial(fmt.Sprintf("bulk-loss/%d/%d", o.Rounds, o.Files))
		}
		if o.Bad > 0 {
			c.Violation("ledger marked synced while the hub holds no such file: hub lost many files of one spoke whose acknowledgements had been lost (reconcile batch with many stale receipts)", o)
		}
	}
	// (2) the same workload under the race detector
	bin := os.Getenv("VERIF_BIN_RACE")
	if bin == "" {
		c.Count("race_subrun_skipped", 1)
		return
	}
	if _, err := os.Stat(bin); err != nil {
		c.Count("race_subrun_skipped", 1)
		return
	}
	dir := vlib.TempDir("c27race")
	defer os.RemoveAll(dir)
	cmd := exec.Command(bin, "-prop", "C27", "-bulkchild")
	cmd.Env = append(os.Environ(), "GORACE=halt_on_error=0 log_path="+filepath.Join(dir, "race"))
	done := make(chan struct{})
	var outB []byte
	var err error
	go func() { outB, err = cmd.CombinedOutput(); close(done) }()
	select {
	case <-done:
	case <-time.After(10 * time.Minute):
		_ = cmd.Process.Kill()
		<-done
		c.Inconclusive("race sub-run exceeded 10 minutes")
		return
	}
	var child bulkOut
	got := false
	for _, line := range strings.Split(string(outB), "\n") {
		if strings.HasPrefix(line, "BULKCHILD ") {
			got = json.Unmarshal([]byte(strings.TrimPrefix(line, "BULKCHILD ")), &child) == nil
		}
	}
	if !got {
		// the race build may die of the torn data itself; the race log still counts
		c.Count("race_subrun_child_without_summary", 1)
		_ = err
	} else {
		c.Count("race_subrun_rounds", int64(child.Rounds))
		c.Count("race_subrun_stale_receipts", int64(child.StaleReceipts))
		if child.Bad > 0 {
			c.Violation("ledger marked synced while the hub holds no such file: hub lost many files of one spoke whose acknowledgements had been lost (reconcile batch with many stale receipts)", child)
		}
	}
	files2, _ := filepath.Glob(filepath.Join(dir, "race*"))
	seen := map[string]string{}
	total := 0
	for _, f := range files2 {
		b, _ := os.ReadFile(f)
		for _, blk := range strings.Split(string(b), "==================") {
			if !strings.Contains(blk, "WARNING: DATA RACE") {
				continue
			}
			total++
			var tops []string
			lines := strings.Split(blk, "\n")
			for i, ln := range lines {
				if (strings.Contains(ln, " by goroutine ") || strings.Contains(ln, " by main goroutine")) &&
					(strings.HasPrefix(ln, "Write at") || strings.HasPrefix(ln, "Read at") || strings.HasPrefix(ln, "Previous write at") || strings.HasPrefix(ln, "Previous read at")) {
					top := ""
					for j := i + 1; j < len(lines) && strings.TrimSpace(lines[j]) != ""; j += 2 {
						if m := bulkRaceFrame.FindStringSubmatch(lines[j]); m != nil {
							if top == "" {
								top = m[1]
							}
							if strings.Contains(m[1], "basekick-labs/arc/internal/") && !strings.Contains(m[1], "zzverif/") {
								top = m[1]
								break
							}
						}
					}
					tops = append(tops, top)
				}
			}
			sort.Strings(tops)
			key := strings.ReplaceAll(strings.Join(tops, " <-> "), "github.com/basekick-labs/arc/internal/", "")
			if _, ok := seen[key]; !ok {
				seen[key] = blk
			}
		}
	}
	c.Count("race_reports_total", int64(total))
	keys := make([]string, 0, len(seen))
	for k := range seen {
		keys = append(keys, k)
	}
	sort.Strings(keys)
	c.Extra("race_reports", keys)
	for _, k := range keys {
		if !strings.Contains(k, "edgesync.") {
			c.Count("race_reports_outside_edgesync", 1)
			continue
		}
		txt := seen[k]
		if len(txt) > 6000 {
			txt = txt[:6000]
		}
		// line numbers and closure indices change with unrelated edits: keep function names only
		c.Violation("data race in the edge-sync code under a reconcile batch with many stale receipts: "+regexp.MustCompile(`\.func\d+(\.\d+)*`).ReplaceAllString(k, ".func"), map[string]any{"report": txt})
	}
}
