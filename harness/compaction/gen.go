package main

// Partition generator for C09. A partition is described by a partSpec (ground
// truth: every row with its unique rid) and materialised as Parquet files written by
// arc's own ingest.ArrowWriter.WriteParquetColumnar, so that the footer metadata the
// compaction dedup reads (arc:tags, arc:dedup_time) is the real thing. Everything is
// derived from two 64-bit seeds, so a replay regenerates the identical partition.

import (
	"context"
	"fmt"
	"math/rand/v2"
	"os"
	"path/filepath"
	"sort"

	"github.com/rs/zerolog"

	"github.com/basekick-labs/arc/internal/config"
	"github.com/basekick-labs/arc/internal/ingest"
)

type colSpec struct {
	Name string `json:"name"`
	Kind string `json:"kind"` // int | float | str | bool
	Tag  bool   `json:"tag"`
}

type rowSpec struct {
	Rid  int64          `json:"rid"`
	T    int64          `json:"t"` // microseconds
	Vals map[string]any `json:"vals"`
}

type fileSpec struct {
	Key       string    `json:"key"` // storage key
	Cols      []string  `json:"cols"`
	TagMeta   bool      `json:"tag_meta"`   // arc:tags written (when at least one tag column is present)
	DedupTime bool      `json:"dedup_time"` // arc:dedup_time written
	Pre       bool      `json:"pre"`        // part of the generation that is compacted before the scenario starts
	Rows      []rowSpec `json:"-"`
}

type partSpec struct {
	Idx          int        `json:"idx"`
	SeedA        uint64     `json:"-"`
	SeedB        uint64     `json:"-"`
	Tier         string     `json:"tier"` // hourly | daily
	DB           string     `json:"db"`
	Meas         string     `json:"measurement"`
	Cols         []colSpec  `json:"cols"`
	MetaMode     string     `json:"meta_mode"`                     // tags | none | dedup_time | tags+dedup_time | mixed
	Evolve       int        `json:"tag_changes_at_file,omitempty"` // files on one side of this index lack the last tag column
	EvolveDrop   bool       `json:"tag_dropped,omitempty"`         // false: files before the index lack it (tag added); true: files from the index on lack it (second writer without it)
	Files        []fileSpec `json:"files"`
	MinFiles     int        `json:"min_files"`
	MaxBatch     int        `json:"max_files_per_batch"`
	BatchDeleter bool       `json:"batch_deleter"` // (a): backend offers DeleteBatch (local/S3/Azure do) or only Delete
	PreCompact   bool       `json:"pre_compact"`
	JobBatch     int        `json:"job_batch"` // (a): which batch of the candidate the crashed job runs (0-based)
	Dict         bool       `json:"use_dictionary"`
	Rows         int        `json:"rows"`
	DupKeyRows   int        `json:"rows_sharing_a_key"`
	NullCells    int        `json:"null_cells"`
}

// tagCols returns the tag column names of the partition (sorted).
func (p *partSpec) tagCols() []string {
	var t []string
	for _, c := range p.Cols {
		if c.Tag {
			t = append(t, c.Name)
		}
	}
	sort.Strings(t)
	return t
}

func (f *fileSpec) has(col string) bool {
	for _, c := range f.Cols {
		if c == col {
			return true
		}
	}
	return false
}

// effTags returns the tag columns this file announces in arc:tags.
func (p *partSpec) effTags(f *fileSpec) []string {
	if !f.TagMeta {
		return nil
	}
	var t []string
	for _, c := range p.tagCols() {
		if f.has(c) {
			t = append(t, c)
		}
	}
	return t
}

// dedupKey returns the columns (besides time) that identify duplicates and whether
// any file of the partition carries deduplication metadata at all.
func (p *partSpec) dedupKey() (cols []string, any bool, all bool) {
	set := map[string]bool{}
	all = true
	for i := range p.Files {
		f := &p.Files[i]
		t := p.effTags(f)
		if len(t) > 0 || f.DedupTime {
			any = true
		} else {
			all = false
		}
		for _, c := range t {
			set[c] = true
		}
	}
	for c := range set {
		cols = append(cols, c)
	}
	sort.Strings(cols)
	return cols, any, all && any
}

var tagDomain = []string{"a", "b", "", "x y", "é"}

func pick[T any](r *rand.Rand, xs []T) T { return xs[r.IntN(len(xs))] }

func genPartition(idx int, a, b uint64, thorough bool) *partSpec {
	r := rand.New(rand.NewPCG(a, b))
	p := &partSpec{Idx: idx, SeedA: a, SeedB: b, DB: "c09db"}
	p.Meas = pick(r, []string{"cpu", "mem_use", "s1"})
	p.Tier = "hourly"
	if r.IntN(5) == 0 {
		p.Tier = "daily"
	}
	p.Dict = r.IntN(2) == 0
	p.BatchDeleter = r.IntN(3) != 0

	// number of raw files: 3..40, skewed to small
	var k int
	switch x := r.IntN(10); {
	case x < 5:
		k = 3 + r.IntN(6)
	case x < 8:
		k = 9 + r.IntN(12)
	default:
		k = 21 + r.IntN(20)
	}
	p.MinFiles = 2 + r.IntN(3)
	if p.MinFiles > k {
		p.MinFiles = k
	}
	switch x := r.IntN(10); {
	case x < 5:
		p.MaxBatch = 30
	case x < 8:
		p.MaxBatch = 3 + r.IntN(6)
	default:
		p.MaxBatch = k/2 + 1
	}
	if p.MaxBatch < 2 {
		p.MaxBatch = 2
	}

	switch x := r.IntN(20); {
	case x < 7:
		p.MetaMode = "tags"
	case x < 11:
		p.MetaMode = "none"
	case x < 13:
		p.MetaMode = "dedup_time"
	case x < 15:
		p.MetaMode = "tags+dedup_time"
	default:
		p.MetaMode = "mixed"
	}
	wantTags := p.MetaMode == "tags" || p.MetaMode == "tags+dedup_time" || p.MetaMode == "mixed"

	// columns
	nt := r.IntN(4)
	if wantTags && nt == 0 {
		nt = 1 + r.IntN(3)
	}
	for _, n := range []string{"host", "region", "dc"}[:nt] {
		p.Cols = append(p.Cols, colSpec{Name: n, Kind: "str", Tag: true})
	}
	fields := []colSpec{{Name: "v_i", Kind: "int"}, {Name: "v_f", Kind: "float"}, {Name: "v_s", Kind: "str"}, {Name: "v_b", Kind: "bool"}, {Name: "w_i", Kind: "int"}, {Name: "w_s", Kind: "str"}}
	r.Shuffle(len(fields), func(i, j int) { fields[i], fields[j] = fields[j], fields[i] })
	p.Cols = append(p.Cols, fields[:1+r.IntN(4)]...)

	p.PreCompact = p.Tier == "hourly" && k >= 2*p.MinFiles && r.IntN(4) == 0
	nPre := 0
	if p.PreCompact {
		nPre = p.MinFiles + r.IntN(k-2*p.MinFiles+1)
	}
	tags := p.tagCols()
	if (p.MetaMode == "tags" || p.MetaMode == "tags+dedup_time") && len(tags) >= 2 && r.IntN(2) == 0 {
		// tag schema evolution: files on one side of the index lack the last tag column altogether
		p.Evolve = 1 + r.IntN(k-1)
		p.EvolveDrop = r.IntN(2) == 0
		if p.PreCompact {
			p.Evolve = nPre // the already compacted generation is the one with the other tag set
		}
	}

	// partition time: a day between 2023-01-01 and 2025-06-30, far older than any min-age rule
	day := int64(19358 + r.IntN(900)) // days since epoch
	var hours []int
	if p.Tier == "hourly" {
		hours = []int{r.IntN(24)}
	} else {
		nh := 2 + r.IntN(4)
		perm := r.Perm(24)[:nh]
		sort.Ints(perm)
		hours = perm
	}
	const hourUS = int64(3600) * 1_000_000
	dayUS := day * 24 * hourUS
	y, mo, d := civil(day)

	// key pools per hour: (tag values, time) tuples that several rows share
	type key struct {
		tv map[string]any
		t  int64
	}
	pool := map[int][]key{}
	newTagVals := func() map[string]any {
		m := map[string]any{}
		for _, c := range tags {
			if r.IntN(7) == 0 {
				m[c] = nil
			} else {
				m[c] = pick(r, tagDomain)
			}
		}
		return m
	}
	for _, h := range hours {
		n := 1 + r.IntN(6)
		for i := 0; i < n; i++ {
			pool[h] = append(pool[h], key{tv: newTagVals(), t: dayUS + int64(h)*hourUS + int64(r.IntN(6))*1_000_000 + int64(r.IntN(3))})
		}
		// sibling keys: same time and same values in every tag column but the LAST one -
		// distinct series that a key built from a subset of the tag columns would merge
		if len(tags) >= 1 && (p.Evolve > 0 || r.IntN(2) == 0) {
			base := pool[h][r.IntN(len(pool[h]))]
			last := tags[len(tags)-1]
			for _, v := range tagDomain {
				if v == base.tv[last] {
					continue
				}
				sib := map[string]any{}
				for k2, v2 := range base.tv {
					sib[k2] = v2
				}
				sib[last] = v
				pool[h] = append(pool[h], key{tv: sib, t: base.t})
				if r.IntN(2) == 0 {
					break
				}
			}
		}
	}
	dupRate := []float64{0, 0.3, 0.6, 0.9}[r.IntN(4)]
	if p.Evolve > 0 && dupRate < 0.6 {
		dupRate = 0.6 // partitions whose files announce different tag lists always hold rows sharing keys
	}
	nullRate := []float64{0, 0.15, 0.5}[r.IntN(3)]

	rid := int64(idx)*1_000_000 + 1
	for fi := 0; fi < k; fi++ {
		h := pick(r, hours)
		f := fileSpec{Pre: fi < nPre}
		// arc raw file name: <measurement>_<YYYYMMDD>_<HHMMSS>_<nanos>.parquet (time of the flush)
		f.Key = fmt.Sprintf("%s/%s/%04d/%02d/%02d/%02d/%s_%04d%02d%02d_%02d%02d%02d_%09d.parquet",
			p.DB, p.Meas, y, mo, d, h, p.Meas, y, mo, d, h, fi/60+1, fi%60, r.IntN(1_000_000_000))
		for _, c := range p.Cols {
			present := true
			if c.Tag {
				if p.Evolve > 0 && c.Name == tags[len(tags)-1] && (fi < p.Evolve) != p.EvolveDrop {
					present = false
				}
			} else if r.IntN(7) == 0 {
				present = false
			}
			if present {
				f.Cols = append(f.Cols, c.Name)
			}
		}
		switch p.MetaMode {
		case "tags":
			f.TagMeta = true
		case "dedup_time":
			f.DedupTime = true
		case "tags+dedup_time":
			f.TagMeta, f.DedupTime = true, true
		case "mixed":
			f.TagMeta = r.IntN(2) == 0
		}
		nr := 1 + r.IntN(10)
		if thorough && r.IntN(8) == 0 {
			nr = 50 + r.IntN(200)
		}
		for i := 0; i < nr; i++ {
			row := rowSpec{Rid: rid, Vals: map[string]any{}}
			rid++
			var tv map[string]any
			if r.Float64() < dupRate {
				kk := pick(r, pool[h])
				tv, row.T = kk.tv, kk.t
			} else {
				tv, row.T = newTagVals(), dayUS+int64(h)*hourUS+int64(r.IntN(3_600_000))*1000+int64(r.IntN(1000))
			}
			for _, c := range p.Cols {
				if !f.has(c.Name) {
					continue
				}
				if c.Tag {
					row.Vals[c.Name] = tv[c.Name]
					continue
				}
				if r.Float64() < nullRate {
					row.Vals[c.Name] = nil
					continue
				}
				switch c.Kind {
				case "int":
					row.Vals[c.Name] = pick(r, []int64{0, -1, 7, 1 << 40, -(1 << 62), int64(r.IntN(1000))})
				case "float":
					row.Vals[c.Name] = pick(r, []float64{0, -0.5, 1e300, 3.25, float64(r.IntN(1000)) / 8})
				case "str":
					row.Vals[c.Name] = pick(r, []string{"", "s", "it's", "ünï", fmt.Sprintf("v%d", r.IntN(50))})
				case "bool":
					row.Vals[c.Name] = r.IntN(2) == 0
				}
			}
			row.Vals["pl"] = fmt.Sprintf("p%d-%08x", row.Rid, r.Uint32())
			f.Rows = append(f.Rows, row)
		}
		// arc's buffer sorts a flush by time before writing
		sort.SliceStable(f.Rows, func(i, j int) bool { return f.Rows[i].T < f.Rows[j].T })
		p.Files = append(p.Files, f)
	}
	if len(p.Files) > 0 {
		nb := (k + p.MaxBatch - 1) / p.MaxBatch
		p.JobBatch = r.IntN(nb)
	}
	// statistics for the evidence
	kc, _, _ := p.dedupKey()
	seen := map[string]int{}
	for i := range p.Files {
		for _, row := range p.Files[i].Rows {
			p.Rows++
			m := p.specRow(&p.Files[i], row)
			seen[rowKey(m, kc)]++
			for _, v := range row.Vals {
				if v == nil {
					p.NullCells++
				}
			}
		}
	}
	for _, n := range seen {
		if n > 1 {
			p.DupKeyRows += n
		}
	}
	return p
}

// specRow renders a ground-truth row the way the independent reader renders a stored one.
func (p *partSpec) specRow(f *fileSpec, r rowSpec) map[string]any {
	m := map[string]any{"time": r.T, "rid": r.Rid}
	for k, v := range r.Vals {
		m[k] = v
	}
	return m
}

// civil converts days since 1970-01-01 to y/m/d (Howard Hinnant), no time package.
func civil(days int64) (int, int, int) {
	z := days + 719468
	era := z / 146097
	doe := z - era*146097
	yoe := (doe - doe/1460 + doe/36524 - doe/146096) / 365
	y := yoe + era*400
	doy := doe - (365*yoe + yoe/4 - yoe/100)
	mp := (5*doy + 2) / 153
	d := doy - (153*mp+2)/5 + 1
	m := mp + 3
	if m > 12 {
		m -= 12
	}
	if m <= 2 {
		y++
	}
	return int(y), int(m), int(d)
}

// writeFile materialises one file of the partition below root with arc's ArrowWriter.
func (p *partSpec) writeFile(root string, f *fileSpec) error {
	w := ingest.NewArrowWriter(&config.IngestConfig{Compression: "snappy", WriteStatistics: true, DataPageVersion: "2.0", UseDictionary: p.Dict}, zerolog.Nop())
	n := len(f.Rows)
	cols := map[string]interface{}{}
	valid := map[string][]bool{}
	tm, rids, pls := make([]int64, n), make([]int64, n), make([]string, n)
	for i, r := range f.Rows {
		tm[i], rids[i], pls[i] = r.T, r.Rid, r.Vals["pl"].(string)
	}
	cols["time"], cols["rid"], cols["pl"] = tm, rids, pls
	for _, c := range p.Cols {
		if !f.has(c.Name) {
			continue
		}
		ok := make([]bool, n)
		anyNull := false
		switch c.Kind {
		case "int":
			a := make([]int64, n)
			for i, r := range f.Rows {
				if v, is := r.Vals[c.Name].(int64); is {
					a[i], ok[i] = v, true
				}
			}
			cols[c.Name] = a
		case "float":
			a := make([]float64, n)
			for i, r := range f.Rows {
				if v, is := r.Vals[c.Name].(float64); is {
					a[i], ok[i] = v, true
				}
			}
			cols[c.Name] = a
		case "str":
			a := make([]string, n)
			for i, r := range f.Rows {
				if v, is := r.Vals[c.Name].(string); is {
					a[i], ok[i] = v, true
				}
			}
			cols[c.Name] = a
		case "bool":
			a := make([]bool, n)
			for i, r := range f.Rows {
				if v, is := r.Vals[c.Name].(bool); is {
					a[i], ok[i] = v, true
				}
			}
			cols[c.Name] = a
		}
		for _, b := range ok {
			if !b {
				anyNull = true
			}
		}
		if anyNull {
			valid[c.Name] = ok
		}
	}
	data, err := w.WriteParquetColumnar(context.Background(), p.Meas, cols, valid, p.effTags(f), f.DedupTime, nil)
	if err != nil {
		return fmt.Errorf("ArrowWriter: %w", err)
	}
	abs := filepath.Join(root, filepath.FromSlash(f.Key))
	if err := os.MkdirAll(filepath.Dir(abs), 0o755); err != nil {
		return err
	}
	return os.WriteFile(abs, data, 0o644)
}
