// Harness for the compaction area: C09 (compaction never loses or duplicates rows,
// even across crashes).
package main

import (
	"encoding/json"
	"flag"
	"fmt"
	"io"
	"os"
	"path/filepath"
	"strconv"
	"strings"
	"syscall"
	"time"

	"github.com/basekick-labs/arc/internal/compaction"
	"github.com/basekick-labs/arc/internal/verifhook"
	"github.com/basekick-labs/arc/internal/zzverif/vlib"
)

// slowClock installs a virtual clock that runs clockSlowdown times slower than the wall
// clock, from an epoch shared by this process and every job child (environment
// variable). Effect: all jobs of a case - in particular the two halves that
// compactFilesAdaptively runs back to back from one candidate after a killed child - see
// clock readings a few milliseconds apart, as they would on a machine that fast. Only
// internal/compaction/job.go and manager.go read this clock (area.json "vclock"); they use
// it for output / temp-dir names and manifest timestamps, nothing waits on it. Two readings
// that are >= 1 microsecond apart on the wall clock stay distinct nanosecond values.
const clockSlowdown = 128

func slowClock() {
	const env = "VERIF_C09_EPOCH"
	var epoch time.Time
	if v, err := strconv.ParseInt(os.Getenv(env), 10, 64); err == nil && v > 0 {
		epoch = time.Unix(0, v)
	} else {
		epoch = time.Now()
		os.Setenv(env, strconv.FormatInt(epoch.UnixNano(), 10))
	}
	verifhook.SetNow(func() time.Time {
		return epoch.Add(time.Since(epoch) / clockSlowdown)
	})
}

func main() {
	slowClock()
	// The real compaction manager re-executes the running binary as
	// `<exe> compact --job-stdin` (cmd/arc/main.go:runCompactSubcommand). C09 drives
	// real manager cycles, so this binary answers that sub-command the same way:
	// the job runs in a child process exactly as in production.
	if len(os.Args) > 1 && os.Args[1] == "compact" {
		runCompactChild()
		return
	}
	prop := flag.String("prop", "", "property id")
	flag.String("replay", "", "replay file")
	flag.Parse()
	switch *prop {
	case "C09":
		vlib.Main("C09", "fault_enumeration", checkC09)
	default:
		fmt.Println("unknown property", *prop)
		os.Exit(2)
	}
}

// killSpec is the per-case kill order for job child processes. The parent writes it
// to <TempDirectory>/verif-kill.json (TempDirectory is part of the job config every
// child receives on stdin, so concurrent cases in one parent do not interfere —
// the VERIF_CTL environment variable would be shared by all of them). The child
// installs it as an in-process verifhook rule on the named point; when it fires the
// child SIGKILLs itself exactly like verifhook's own "crash" action, so the parent
// sees `signal: killed`.
type killSpec struct {
	Point      string `json:"point"`      // hook point, e.g. compaction.job.after_upload
	Nth        int64  `json:"nth"`        // n-th hit of the point inside one child (1-based)
	Job        int    `json:"job"`        // 1-based index of the job child process to kill
	Persistent bool   `json:"persistent"` // also kill every later job child at the same place
}

const (
	killSpecFile  = "verif-kill.json"
	killCountFile = "verif-kill.count"
	killLogFile   = "verif-kill.log"
	childLogFile  = "verif-children.log" // one line per job child process of the case
)

// runCompactChild mirrors cmd/arc/main.go:runCompactSubcommand (job config on stdin,
// result JSON on stdout).
func runCompactChild() {
	data, err := io.ReadAll(os.Stdin)
	if err != nil {
		fmt.Fprintf(os.Stderr, "error: failed to read config from stdin: %v\n", err)
		os.Exit(1)
	}
	var cfg compaction.SubprocessJobConfig
	if err := json.Unmarshal(data, &cfg); err != nil {
		fmt.Fprintf(os.Stderr, "error: invalid job config: %v\n", err)
		os.Exit(1)
	}
	armKill(&cfg)
	res, err := compaction.RunSubprocessJob(&cfg)
	if err != nil {
		fmt.Fprintf(os.Stderr, "error: %v\n", err)
		os.Exit(1)
	}
	if err := json.NewEncoder(os.Stdout).Encode(res); err != nil {
		fmt.Fprintf(os.Stderr, "error: failed to encode result: %v\n", err)
		os.Exit(1)
	}
}

// armKill numbers this child (children of one case run strictly one after the other:
// MaxConcurrent is 1 and the batches of a partition are sequential) and arms the kill
// rule when the case's spec addresses it.
func armKill(cfg *compaction.SubprocessJobConfig) {
	dir := cfg.TempDirectory
	if f, err := os.OpenFile(filepath.Join(dir, childLogFile), os.O_APPEND|os.O_CREATE|os.O_WRONLY, 0o644); err == nil {
		fmt.Fprintf(f, "%d\n", len(cfg.Files))
		f.Close()
	}
	b, err := os.ReadFile(filepath.Join(dir, killSpecFile))
	if err != nil {
		return
	}
	var ks killSpec
	if json.Unmarshal(b, &ks) != nil || ks.Point == "" {
		return
	}
	n := 0
	if cb, err := os.ReadFile(filepath.Join(dir, killCountFile)); err == nil {
		n, _ = strconv.Atoi(strings.TrimSpace(string(cb)))
	}
	n++
	_ = os.WriteFile(filepath.Join(dir, killCountFile), []byte(strconv.Itoa(n)), 0o644)
	if n != ks.Job && !(ks.Persistent && n > ks.Job) {
		return
	}
	child, files := n, len(cfg.Files)
	verifhook.Set(ks.Point, verifhook.Rule{Action: "call", Nth: ks.Nth, Fn: func(name string) error {
		if f, err := os.OpenFile(filepath.Join(dir, killLogFile), os.O_APPEND|os.O_CREATE|os.O_WRONLY, 0o644); err == nil {
			fmt.Fprintf(f, "%s child=%d files=%d\n", name, child, files)
			f.Close()
		}
		_ = syscall.Kill(os.Getpid(), syscall.SIGKILL)
		select {}
	}})
}
