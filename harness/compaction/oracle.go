package main

// Oracle for C09: conservation of rows by unique rid, read with the independent
// arrow-go Parquet reader (vpq), never with arc's or the compaction job's DuckDB.

import (
	"fmt"
	"math"
	"os"
	"path/filepath"
	"sort"
	"strings"
	"sync"

	"github.com/basekick-labs/arc/internal/zzverif/vpq"
)

// srow is one stored (or ground-truth) row.
type srow struct {
	Rid  int64
	File string // path relative to the storage root
	Vals map[string]any
}

// snapshot is what a measurement shows: every row of every *.parquet file below
// <root>/<db>/<measurement> (what arc's query layer globs).
type snapshot struct {
	Rows       []srow
	Files      []string
	Unreadable map[string]string // rel path -> error
}

func takeSnapshot(root string, p *partSpec) *snapshot {
	s := &snapshot{Unreadable: map[string]string{}}
	base := filepath.Join(root, p.DB, p.Meas)
	_ = filepath.Walk(base, func(abs string, info os.FileInfo, err error) error {
		if err != nil || info.IsDir() || !strings.HasSuffix(abs, ".parquet") {
			return nil
		}
		rel, _ := filepath.Rel(root, abs)
		rel = filepath.ToSlash(rel)
		s.Files = append(s.Files, rel)
		f, err := vpq.ReadFile(abs, rel)
		if err != nil {
			s.Unreadable[rel] = err.Error()
			return nil
		}
		for _, r := range f.Rows {
			s.Rows = append(s.Rows, srow{Rid: ridOf(r), File: rel, Vals: r})
		}
		return nil
	})
	sort.Strings(s.Files)
	return s
}

func ridOf(r map[string]any) int64 {
	if v, ok := r["rid"].(int64); ok {
		return v
	}
	return -1
}

// rowKey renders the deduplication key (tag values, time) of a row. NULL tags are
// one value (SQL window partitions put NULLs together), "" is another.
func rowKey(r map[string]any, keyCols []string) string {
	var sb strings.Builder
	for _, c := range keyCols {
		switch v := norm(r[c]).(type) {
		case nil:
			sb.WriteString("N|")
		case string:
			fmt.Fprintf(&sb, "S%d:%s|", len(v), v)
		default:
			fmt.Fprintf(&sb, "?%v|", v)
		}
	}
	fmt.Fprintf(&sb, "T%v", r["time"])
	return sb.String()
}

func norm(v any) any {
	if b, ok := v.([]byte); ok {
		return string(b)
	}
	return v
}

func sameVal(a, b any) bool {
	a, b = norm(a), norm(b)
	fa, ok1 := a.(float64)
	fb, ok2 := b.(float64)
	if ok1 && ok2 {
		return math.Float64bits(fa) == math.Float64bits(fb) || fa == fb
	}
	return a == b
}

// sameRow compares two rows over the union of their columns (absent = NULL).
func sameRow(a, b map[string]any) (bool, string) {
	for k, v := range a {
		if !sameVal(v, b[k]) {
			return false, k
		}
	}
	for k, v := range b {
		if _, ok := a[k]; !ok && v != nil {
			return false, k
		}
	}
	return true, ""
}

// finding is one oracle verdict; Effect is the stable part used in the signature.
type finding struct {
	Effect string `json:"effect"`
	Detail any    `json:"detail"`
	// RootCause: the effect text already names a fault-independent root cause, the
	// signature must not vary with the scenario.
	RootCause bool `json:"root_cause_signature,omitempty"`
}

const narrowKeyEffect = "rows with different tag values collapsed: a compacted file (which carries no arc:tags) was re-compacted with raw files announcing fewer tags and deduplicated on that narrower key"

// compareRows is the conservation oracle. before: the rows the partition showed;
// after: what it shows now. keyCols/collapse: the deduplication key and whether any
// file carried deduplication metadata (only then rows with one key may collapse).
// mustCollapse: every raw file carried the metadata, so a single compacted output
// may not hold two rows with one key. raw: the original raw input files.
func compareRows(before []srow, after *snapshot, keyCols []string, collapse, mustCollapse bool, raw map[string]bool, narrow [][]string) []finding {
	var out []finding
	if len(after.Unreadable) > 0 {
		out = append(out, finding{Effect: "unreadable parquet file left in the partition", Detail: after.Unreadable})
	}
	byRid := map[int64]srow{}
	groups := map[string][]int64{}
	for _, r := range before {
		byRid[r.Rid] = r
		k := rowKey(r.Vals, keyCols)
		groups[k] = append(groups[k], r.Rid)
	}
	seen := map[int64][]string{}
	var foreign, altered []any
	for _, r := range after.Rows {
		b, ok := byRid[r.Rid]
		if !ok {
			if len(foreign) < 5 {
				foreign = append(foreign, map[string]any{"file": r.File, "row": r.Vals})
			}
			continue
		}
		seen[r.Rid] = append(seen[r.Rid], r.File)
		if eq, col := sameRow(b.Vals, r.Vals); !eq && len(altered) < 5 {
			altered = append(altered, map[string]any{"rid": r.Rid, "column": col, "before": b.Vals, "after": r.Vals, "file": r.File})
		}
	}
	if len(foreign) > 0 {
		out = append(out, finding{Effect: "row that was never in the partition appeared", Detail: foreign})
	}
	if len(altered) > 0 {
		out = append(out, finding{Effect: "surviving row differs from the input row with its rid", Detail: altered})
	}
	var dup []any
	ndup := 0
	for rid, files := range seen {
		if len(files) > 1 {
			ndup++
			if len(dup) < 5 {
				dup = append(dup, map[string]any{"rid": rid, "files": files})
			}
		}
	}
	if ndup > 0 {
		sort.Slice(dup, func(i, j int) bool {
			return dup[i].(map[string]any)["rid"].(int64) < dup[j].(map[string]any)["rid"].(int64)
		})
		out = append(out, finding{Effect: "rows duplicated", Detail: map[string]any{"duplicated_rids": ndup, "rows_before": len(before), "rows_after": len(after.Rows), "examples": dup}})
	}
	var lost []any
	nlost := 0
	explained := true // every lost group has a survivor with the same narrower key
	if collapse {
		aliveNarrow := make([]map[string]bool, len(narrow))
		for i, e := range narrow {
			aliveNarrow[i] = map[string]bool{}
			for _, r := range after.Rows {
				aliveNarrow[i][rowKey(r.Vals, e)] = true
			}
		}
		gkeys := make([]string, 0, len(groups))
		for k := range groups {
			gkeys = append(gkeys, k)
		}
		sort.Strings(gkeys)
		for _, k := range gkeys {
			rids := groups[k]
			alive := 0
			for _, rid := range rids {
				if len(seen[rid]) > 0 {
					alive++
				}
			}
			if alive == 0 {
				nlost += len(rids)
				if len(lost) < 5 {
					lost = append(lost, map[string]any{"key": k, "rids": rids})
				}
				ok := false
				for i, e := range narrow {
					if aliveNarrow[i][rowKey(byRid[rids[0]].Vals, e)] {
						ok = true
					}
				}
				if !ok {
					explained = false
				}
			}
		}
	} else {
		explained = false
		for rid, r := range byRid {
			if len(seen[rid]) == 0 {
				nlost++
				if len(lost) < 5 {
					lost = append(lost, map[string]any{"rid": rid, "was_in": r.File, "key": rowKey(r.Vals, keyCols)})
				}
			}
		}
	}
	if nlost > 0 {
		eff := "rows lost"
		f := finding{Effect: eff, Detail: map[string]any{"rows_lost": nlost, "rows_before": len(before), "rows_after": len(after.Rows), "examples": lost}}
		if collapse && explained && len(narrow) > 0 {
			f.Effect, f.RootCause = narrowKeyEffect, true
		}
		out = append(out, f)
	}
	if mustCollapse {
		perFile := map[string]map[string][]int64{}
		for _, r := range after.Rows {
			if raw[r.File] {
				continue
			}
			m := perFile[r.File]
			if m == nil {
				m = map[string][]int64{}
				perFile[r.File] = m
			}
			k := rowKey(r.Vals, keyCols)
			m[k] = append(m[k], r.Rid)
		}
		var ex []any
		for f, m := range perFile {
			for k, rids := range m {
				if len(rids) > 1 && len(ex) < 5 {
					ex = append(ex, map[string]any{"file": f, "key": k, "rids": rids})
				}
			}
		}
		if len(ex) > 0 {
			out = append(out, finding{Effect: "one compacted output holds several rows with one (tags,time) key although every input carried deduplication metadata", Detail: ex})
		}
	}
	sort.SliceStable(out, func(i, j int) bool { return out[i].Effect < out[j].Effect })
	return out
}

// ---- "no input removed before its rows are in a complete output file" ----

// delMonitor checks, at the moment a delete of a Parquet file is about to reach
// storage, that every row of that file is contained in a complete (readable) file of
// the measurement that is not one of the original raw inputs.
type delMonitor struct {
	root     string
	p        *partSpec
	raw      map[string]bool
	keyCols  []string
	collapse bool
	narrow   [][]string // narrower tag sets announced by some raw files (see compareRows)
	phase    string

	mu          sync.Mutex
	checked     int
	rowsSeen    int
	early       []any
	earlyNarrow []any // rows missing only because an output was deduplicated on a narrower key
}

func (d *delMonitor) observe(key string) {
	if !strings.HasSuffix(key, ".parquet") || strings.HasPrefix(key, "_compaction_state") {
		return
	}
	abs := filepath.Join(d.root, filepath.FromSlash(key))
	victim, err := vpq.ReadFile(abs, key)
	if err != nil {
		return // absent or not a complete file: nothing is lost by removing it
	}
	haveRid := map[int64]bool{}
	haveKey := map[string]bool{}
	haveNarrow := make([]map[string]bool, len(d.narrow))
	for i := range haveNarrow {
		haveNarrow[i] = map[string]bool{}
	}
	var outputs []string
	base := filepath.Join(d.root, d.p.DB, d.p.Meas)
	_ = filepath.Walk(base, func(a string, info os.FileInfo, err error) error {
		if err != nil || info.IsDir() || !strings.HasSuffix(a, ".parquet") {
			return nil
		}
		rel, _ := filepath.Rel(d.root, a)
		rel = filepath.ToSlash(rel)
		if rel == key || d.raw[rel] {
			return nil
		}
		f, err := vpq.ReadFile(a, rel)
		if err != nil {
			return nil // incomplete output does not count
		}
		outputs = append(outputs, rel)
		for _, r := range f.Rows {
			haveRid[ridOf(r)] = true
			haveKey[rowKey(r, d.keyCols)] = true
			for i, e := range d.narrow {
				haveNarrow[i][rowKey(r, e)] = true
			}
		}
		return nil
	})
	var missing []int64
	explained := d.collapse && len(d.narrow) > 0
	for _, r := range victim.Rows {
		if haveRid[ridOf(r)] || (d.collapse && haveKey[rowKey(r, d.keyCols)]) {
			continue
		}
		missing = append(missing, ridOf(r))
		ok := false
		for i, e := range d.narrow {
			if haveNarrow[i][rowKey(r, e)] {
				ok = true
			}
		}
		if !ok {
			explained = false
		}
	}
	d.mu.Lock()
	d.checked++
	d.rowsSeen += len(victim.Rows)
	if len(missing) > 0 {
		ev := map[string]any{"deleted": key, "during": d.phase, "rows_not_in_any_complete_output": missing, "complete_outputs_present": outputs}
		if explained && len(d.earlyNarrow) < 5 {
			d.earlyNarrow = append(d.earlyNarrow, ev)
		} else if !explained && len(d.early) < 5 {
			d.early = append(d.early, ev)
		}
	}
	d.mu.Unlock()
}

// storageListing returns "rel size" lines of every file below root (the state
// signature used for "nothing changes any more" and for the replay timeline).
func storageListing(root string) []string {
	var out []string
	_ = filepath.Walk(root, func(a string, info os.FileInfo, err error) error {
		if err != nil || info.IsDir() {
			return nil
		}
		rel, _ := filepath.Rel(root, a)
		out = append(out, fmt.Sprintf("%s %d", filepath.ToSlash(rel), info.Size()))
		return nil
	})
	sort.Strings(out)
	return out
}
