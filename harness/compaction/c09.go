package main

// C09: compaction never loses or duplicates rows, even across crashes.
//
// Per generated partition:
//   clean   a real manager cycle without any fault (for partitions that start with an
//           already compacted file this is also how that file is produced)
//   freeze  (a) the job runs in-process (compaction.NewJob + Run, configured like
//           Manager.CompactPartition configures the child) over the ffs wrapper that
//           freezes at storage mutation N, for every N of the job's mutation sequence
//   kill    (b) the real Manager cycle; the job runs in a child process (this binary's
//           `compact --job-stdin`), which SIGKILLs itself at a verifhook point of
//           job.go; the parent classifies the death and may walk the adaptive split path
// then "restart": a fresh Manager over the same storage runs up to three more complete
// cycles (manifest recovery first, then candidates), and after each the oracle compares
// what the measurement shows with what it showed before the fault.

import (
	"context"
	"database/sql"
	"encoding/json"
	"fmt"
	"io"
	"os"
	"path/filepath"
	"runtime"
	"sort"
	"strconv"
	"strings"
	"sync"
	"time"

	"github.com/rs/zerolog"

	"github.com/basekick-labs/arc/internal/compaction"
	"github.com/basekick-labs/arc/internal/storage"
	"github.com/basekick-labs/arc/internal/zzverif/vlib"
)

type scenario struct {
	Kind    string    `json:"kind"` // clean | freeze | kill
	N       int       `json:"freeze_at,omitempty"`
	Variant string    `json:"variant,omitempty"`
	Phase   string    `json:"phase"`
	Kill    *killSpec `json:"kill,omitempty"`
	// RecFail: the first restart cycle's parent-side deletes of Parquet files fail
	// (storage errors), so manifest recovery cannot finish and the manifest survives
	// into candidate selection: the one situation in which "manifest-tracked files are
	// excluded from candidates" is what protects the rows.
	RecFail bool `json:"recovery_deletes_fail_once,omitempty"`
}

func (s scenario) label() string {
	switch s.Kind {
	case "clean":
		return "compaction cycle without any fault"
	case "freeze":
		if s.N < 0 {
			return "complete in-process job without a crash"
		}
		if s.RecFail {
			return "crash at " + s.Phase + ", then a recovery pass whose input deletes fail"
		}
		return "crash at " + s.Phase
	}
	return "job killed " + s.Phase
}

type prepared struct {
	spec     *partSpec
	goldDir  string // scratch dir holding data/ (the state the scenarios start from)
	before   []srow
	raw      map[string]bool
	keyCols  []string
	collapse bool
	mustColl bool
	narrow   [][]string // tag sets announced by raw files that are narrower than the partition's key
	scen     []scenario
	baseline []finding // verdict of the fault-free preparation cycle (pre-compacted partitions)
	broken   string
}

type caseResult struct {
	p        *prepared
	sc       scenario
	fired    bool
	findings []finding
	when     string
	early    []any
	earlyNK  []any // removed-early events that are the narrower-key root cause
	timeline []any
	events   []mutEvent
	killLog  []string
	children int
	counters map[string]int64
	inconcl  string
}

type replayDetail struct {
	Idx      int        `json:"partition_idx"`
	SeedA    string     `json:"seed_a"`
	SeedB    string     `json:"seed_b"`
	Thorough bool       `json:"thorough_generator"`
	Scenario scenario   `json:"scenario"`
	Spec     *partSpec  `json:"partition"`
	When     string     `json:"observed"`
	Findings []finding  `json:"findings"`
	Early    []any      `json:"inputs_removed_early,omitempty"`
	Timeline []any      `json:"storage_timeline"`
	Events   []mutEvent `json:"job_storage_mutations,omitempty"`
	KillLog  []string   `json:"kill_log,omitempty"`
	HowTo    string     `json:"how_to_replay"`
}

func debugLogger() zerolog.Logger {
	if os.Getenv("C09_DEBUG") != "" {
		return zerolog.New(os.Stderr).Level(zerolog.DebugLevel)
	}
	return zerolog.Nop()
}

func copyTree(src, dst string) error {
	return filepath.Walk(src, func(p string, info os.FileInfo, err error) error {
		if err != nil {
			return err
		}
		rel, _ := filepath.Rel(src, p)
		t := filepath.Join(dst, rel)
		if info.IsDir() {
			return os.MkdirAll(t, 0o755)
		}
		in, err := os.Open(p)
		if err != nil {
			return err
		}
		defer in.Close()
		out, err := os.Create(t)
		if err != nil {
			return err
		}
		if _, err := io.Copy(out, in); err != nil {
			out.Close()
			return err
		}
		return out.Close()
	})
}

func (p *partSpec) tiers(be storage.Backend, lg zerolog.Logger) []compaction.Tier {
	if p.Tier == "daily" {
		return []compaction.Tier{compaction.NewDailyTier(&compaction.DailyTierConfig{StorageBackend: be, MinAgeHours: 24, MinFiles: p.MinFiles, Enabled: true, Logger: lg})}
	}
	return []compaction.Tier{compaction.NewHourlyTier(&compaction.HourlyTierConfig{StorageBackend: be, MinAgeHours: 1, MinFiles: p.MinFiles, Enabled: true, Logger: lg})}
}

func (p *partSpec) manager(be storage.Backend, tmp string) *compaction.Manager {
	lg := debugLogger()
	return compaction.NewManager(&compaction.ManagerConfig{
		StorageBackend: be, LockManager: compaction.NewLockManager(), MinAgeHours: 1, MinFiles: p.MinFiles,
		MaxFilesPerBatch: p.MaxBatch, MaxConcurrent: 1, TempDirectory: tmp, MemoryLimit: "256MB", Threads: 1,
		Tiers: p.tiers(be, lg), Logger: lg,
	})
}

const cycleTimeout = 4 * time.Minute

// runCycle runs one complete manager cycle ("process start": new backend object, new
// manager, manifest recovery, candidates, jobs in child processes).
func runCycle(root, tmp string, p *partSpec, mon *delMonitor, failDeletes bool) (err error, timedOut bool) {
	inner, e := storage.NewLocalBackend(root, zerolog.Nop())
	if e != nil {
		return e, false
	}
	w := newFFS(inner, -1, "")
	if failDeletes {
		w.failDelete = func(key string) bool { return strings.HasSuffix(key, ".parquet") }
	}
	if mon != nil {
		w.onDelete = mon.observe
	}
	// the wrapper forwards Type()/ConfigJSON(), so job children open the same local root
	m := p.manager(w.backend(true), tmp)
	ctx, cancel := context.WithTimeout(context.Background(), cycleTimeout)
	defer cancel()
	_, e = m.RunCompactionCycle(ctx)
	return e, ctx.Err() != nil
}

func nPreFiles(p *partSpec) int {
	n := 0
	for i := range p.Files {
		if p.Files[i].Pre {
			n++
		}
	}
	return n
}

func manifestsIn(root string) int {
	n := 0
	_ = filepath.Walk(filepath.Join(root, compaction.ManifestBasePath), func(p string, info os.FileInfo, err error) error {
		if err == nil && !info.IsDir() && strings.HasSuffix(p, ".json") {
			n++
		}
		return nil
	})
	return n
}

// prepare materialises the partition, runs the fault-free preparation cycle where the
// partition is to start with a compacted file, and takes the "before" snapshot.
func prepare(spec *partSpec) *prepared {
	pr := &prepared{spec: spec, goldDir: vlib.TempDir("c09-gold"), raw: map[string]bool{}}
	root := filepath.Join(pr.goldDir, "data")
	_ = os.MkdirAll(root, 0o755)
	pr.keyCols, pr.collapse, pr.mustColl = spec.dedupKey()
	seenNarrow := map[string]bool{}
	for i := range spec.Files {
		f := &spec.Files[i]
		e := spec.effTags(f)
		if (len(e) > 0 || f.DedupTime) && len(e) < len(pr.keyCols) && !seenNarrow[strings.Join(e, ",")] {
			seenNarrow[strings.Join(e, ",")] = true
			pr.narrow = append(pr.narrow, e)
		}
	}
	var truth []srow
	write := func(pre bool) bool {
		for i := range spec.Files {
			f := &spec.Files[i]
			if f.Pre != pre {
				continue
			}
			if err := spec.writeFile(root, f); err != nil {
				pr.broken = "cannot write partition file: " + err.Error()
				return false
			}
			for _, r := range f.Rows {
				truth = append(truth, srow{Rid: r.Rid, File: f.Key, Vals: spec.specRow(f, r)})
			}
		}
		return true
	}
	if spec.PreCompact {
		if !write(true) {
			return pr
		}
		tmp := filepath.Join(pr.goldDir, "ctmp")
		_ = os.MkdirAll(tmp, 0o700)
		err, to := runCycle(root, tmp, spec, nil, false)
		if to {
			pr.broken = "preparation cycle timed out"
			return pr
		}
		if err != nil {
			pr.broken = "preparation cycle failed: " + err.Error()
			return pr
		}
		// the fault-free cycle is judged like any other: ground truth -> stored rows
		rawPre := map[string]bool{}
		for i := range spec.Files {
			if spec.Files[i].Pre {
				rawPre[spec.Files[i].Key] = true
			}
		}
		pr.baseline = compareRows(truth, takeSnapshot(root, spec), pr.keyCols, pr.collapse, pr.mustColl && nPreFiles(spec) <= spec.MaxBatch, rawPre, pr.narrow)
	}
	if !write(false) {
		return pr
	}
	snap := takeSnapshot(root, spec)
	if len(snap.Unreadable) > 0 {
		pr.broken = "independent reader cannot read the freshly written partition: " + vlib.JSON(snap.Unreadable)
		return pr
	}
	pr.before = snap.Rows
	for i := range spec.Files {
		if _, err := os.Stat(filepath.Join(root, filepath.FromSlash(spec.Files[i].Key))); err == nil {
			pr.raw[spec.Files[i].Key] = true
		}
	}
	if !spec.PreCompact {
		// writer/reader sanity (C01's subject, not ours): the stored rows are the ground truth
		bad := compareRows(truth, snap, nil, false, false, pr.raw, nil)
		if len(bad) > 0 || len(snap.Rows) != len(truth) {
			pr.broken = "freshly written partition does not read back as generated: " + vlib.JSON(bad)
			return pr
		}
	}
	return pr
}

// candidate finds the partition's compaction candidate through the real tier scanner
// and returns the batch the crashed job is to run, configured like
// Manager.runCycleInternal / CompactPartition would.
func candidate(ctx context.Context, p *partSpec, be storage.Backend) (*compaction.Candidate, error) {
	tiers := p.tiers(be, zerolog.Nop())
	cands, err := tiers[0].FindCandidates(ctx, p.DB, p.Meas)
	if err != nil {
		return nil, err
	}
	if len(cands) == 0 {
		return nil, nil
	}
	sort.Slice(cands, func(i, j int) bool { return cands[i].PartitionPath < cands[j].PartitionPath })
	batches := compaction.SplitCandidateIntoBatches(cands[0], p.MaxBatch)
	b := batches[p.JobBatch%len(batches)]
	return &b, nil
}

// runJobInProcess runs one job over the freezing wrapper.
func runJobInProcess(root, tmp string, pr *prepared, sc scenario, db *sql.DB, mon *delMonitor) (events []mutEvent, fired bool, note string) {
	p := pr.spec
	inner, err := storage.NewLocalBackend(root, zerolog.Nop())
	if err != nil {
		return nil, false, "backend: " + err.Error()
	}
	w := newFFS(inner, sc.N, sc.Variant)
	w.onDelete = mon.observe
	be := w.backend(p.BatchDeleter)
	ctx, cancel := context.WithTimeout(context.Background(), cycleTimeout)
	defer cancel()
	c, err := candidate(ctx, p, be)
	if err != nil || c == nil {
		return nil, false, fmt.Sprintf("no candidate (err=%v)", err)
	}
	lg := debugLogger()
	jobID := fmt.Sprintf("%s_%s_%d_b%d", c.Database, strings.ReplaceAll(c.PartitionPath, "/", "_"), time.Now().UnixNano(), c.BatchNumber)
	job := compaction.NewJob(&compaction.JobConfig{
		Measurement: c.Measurement, PartitionPath: c.PartitionPath, Files: c.Files, StorageBackend: be,
		Database: c.Database, Tier: c.Tier, BatchNumber: c.BatchNumber, TempDirectory: tmp,
		SortKeys: []string{"time"}, Logger: lg, DB: db, ManifestManager: compaction.NewManifestManager(be, lg),
		JobID: jobID, PartitionTime: c.PartitionTime,
	})
	_ = job.Run(ctx)
	if ctx.Err() != nil {
		return w.Events(), false, "in-process job timed out"
	}
	return w.Events(), sc.N < 0 || w.Frozen(), ""
}

func phaseOfMutation(e mutEvent) string {
	switch {
	case e.Op == "write" && strings.HasPrefix(e.Key, compaction.ManifestBasePath):
		return "manifest write"
	case e.Op == "upload":
		return "output upload"
	case e.Op == "delete" && strings.HasPrefix(e.Key, compaction.ManifestBasePath):
		return "manifest delete"
	case e.Op == "delete":
		return "input delete"
	}
	return e.Op
}

var killPhases = []struct{ point, phase string }{
	{"compaction.job.after_compact", "after the compaction query before the manifest write, then retried by the adaptive split path"},
	{"compaction.job.after_manifest", "after the manifest write before the upload, then retried by the adaptive split path"},
	{"compaction.job.after_upload", "after upload retried while first output still present"},
	{"storage.local.delete_batch.item", "after upload retried while first output still present"}, // between the input deletes: same window, same root cause
	{"compaction.job.after_inputs_deleted", "after the last input delete before the manifest delete"},
	{"compaction.job.after_manifest_delete", "after the manifest delete"},
}

// runCase executes one scenario on a private copy of the partition.
func runCase(pr *prepared, sc scenario, db *sql.DB) *caseResult {
	res := &caseResult{p: pr, sc: sc, counters: map[string]int64{}}
	p := pr.spec
	dir := vlib.TempDir("c09-case")
	defer os.RemoveAll(dir)
	root, tmp := filepath.Join(dir, "data"), filepath.Join(dir, "ctmp")
	if err := copyTree(filepath.Join(pr.goldDir, "data"), root); err != nil {
		res.inconcl = "copy: " + err.Error()
		return res
	}
	_ = os.MkdirAll(tmp, 0o700)
	// A collapse on a key narrower than the union of the announced tags is the known
	// effect of re-compacting a compacted (tag-less) file together with raw files. One
	// complete job over raw files only - no pre-compacted file, one batch, no crash -
	// has no such input: there the union of the files' tag lists is the only legal key.
	narrow := pr.narrow
	if sc.Kind == "freeze" && sc.N < 0 && !p.PreCompact && len(p.Files) <= p.MaxBatch {
		narrow = nil
	}
	mon := &delMonitor{root: root, p: p, raw: pr.raw, keyCols: pr.keyCols, collapse: pr.collapse, narrow: narrow}
	snapNote := func(step string) {
		res.timeline = append(res.timeline, map[string]any{"after": step, "files": storageListing(root)})
	}
	snapNote("start")

	switch sc.Kind {
	case "freeze":
		mon.phase = "the job"
		ev, fired, note := runJobInProcess(root, tmp, pr, sc, db, mon)
		res.events, res.fired = ev, fired
		if note != "" {
			res.inconcl = note
			return res
		}
		if es, err := os.ReadDir(tmp); err == nil { // the dead process's scratch files
			for _, e := range es {
				if e.IsDir() {
					_ = os.RemoveAll(filepath.Join(tmp, e.Name()))
				}
			}
		}
		snapNote("job with " + sc.label())
	case "kill":
		mon.phase = "the cycle in which the job was killed (parent side)"
		b, _ := json.Marshal(sc.Kill)
		_ = os.WriteFile(filepath.Join(tmp, killSpecFile), b, 0o644)
		err, to := runCycle(root, tmp, p, mon, false)
		if to {
			res.inconcl = "cycle with kill timed out"
			return res
		}
		_ = err
		if lb, err := os.ReadFile(filepath.Join(tmp, killLogFile)); err == nil {
			res.killLog = strings.Split(strings.TrimSpace(string(lb)), "\n")
		}
		if cb, err := os.ReadFile(filepath.Join(tmp, killCountFile)); err == nil {
			res.children, _ = strconv.Atoi(strings.TrimSpace(string(cb)))
		}
		res.fired = len(res.killLog) > 0
		for _, f := range []string{killSpecFile, killLogFile, killCountFile} {
			_ = os.Remove(filepath.Join(tmp, f))
		}
		res.counters["manager_cycles"]++
		snapNote("cycle with " + sc.label())
	case "clean":
		res.fired = true
	}

	// "one row per key inside one output" can only be demanded where every job is known
	// to have had a raw file (with its metadata) among its inputs: a batch or a split
	// half that consists of compacted files only (they carry no arc:tags) rightly
	// does not deduplicate.
	mustColl := pr.mustColl && !p.PreCompact && len(p.Files) <= p.MaxBatch && sc.Kind != "kill"

	// restart: fresh manager, complete cycles, until nothing changes (at most three)
	prev := storageListing(root)
	maxCycles := 3
	if sc.RecFail {
		maxCycles = 4
	}
	for i := 1; i <= maxCycles; i++ {
		recFail := sc.RecFail && i == 1
		mon.mu.Lock()
		mon.phase = fmt.Sprintf("restart cycle %d (manifest recovery / parent side)", i)
		mon.mu.Unlock()
		mBefore := manifestsIn(root)
		err, to := runCycle(root, tmp, p, mon, recFail)
		if to {
			res.inconcl = "restart cycle timed out"
			return res
		}
		if err != nil {
			res.inconcl = "restart cycle returned an error: " + err.Error()
			return res
		}
		res.counters["manager_cycles"]++
		res.counters["restart_cycles"]++
		if d := mBefore - manifestsIn(root); d > 0 {
			res.counters["orphaned_manifests_resolved"] += int64(d)
		}
		snapNote(fmt.Sprintf("restart cycle %d", i))
		if recFail {
			// recovery was prevented from finishing: inputs and output legitimately
			// coexist until the next pass; judged from the next cycle on
			prev = storageListing(root)
			continue
		}
		snap := takeSnapshot(root, p)
		res.counters["rows_compared"] += int64(len(snap.Rows))
		if f := compareRows(pr.before, snap, pr.keyCols, pr.collapse, mustColl, pr.raw, narrow); len(f) > 0 && res.findings == nil {
			res.findings, res.when = f, fmt.Sprintf("after restart cycle %d", i)
		}
		cur := storageListing(root)
		if strings.Join(cur, "\n") == strings.Join(prev, "\n") {
			break
		}
		prev = cur
	}
	res.counters["manifests_left_at_end"] += int64(manifestsIn(root))
	if cb, err := os.ReadFile(filepath.Join(tmp, childLogFile)); err == nil {
		res.counters["job_child_processes"] += int64(strings.Count(string(cb), "\n"))
	}
	mon.mu.Lock()
	res.early, res.earlyNK = mon.early, mon.earlyNarrow
	res.counters["delete_events_checked"] += int64(mon.checked)
	res.counters["rows_checked_at_deletes"] += int64(mon.rowsSeen)
	mon.mu.Unlock()
	return res
}

// scenarios builds the fault list of a partition from the mutation sequence of a
// complete in-process job.
func scenarios(pr *prepared, full []mutEvent, thorough bool) []scenario {
	var out []scenario
	nDel := 0
	for _, e := range full {
		ph := phaseOfMutation(e)
		out = append(out, scenario{Kind: "freeze", N: e.Idx, Phase: ph})
		if ph == "output upload" {
			out = append(out,
				scenario{Kind: "freeze", N: e.Idx, Variant: "torn", Phase: "output upload (torn: half of the bytes in the .part staging file)"},
				scenario{Kind: "freeze", N: e.Idx, Variant: "unpromoted", Phase: "output upload (all bytes in the .part staging file, rename missing)"})
		}
		if ph == "input delete" {
			if nDel == 0 {
				out = append(out, scenario{Kind: "freeze", N: e.Idx, Phase: ph, RecFail: true})
			}
			nDel++
		}
	}
	// (b) kills of the job child: every phase once; one phase persistently (every retry
	// dies at the same place); on multi-batch partitions one phase in the second job
	sa := pr.spec.SeedA
	for i, kp := range killPhases {
		nths := []int64{1}
		if kp.point == "storage.local.delete_batch.item" && nDel >= 2 {
			nths = append(nths, int64(nDel))
			if nDel >= 3 && thorough {
				nths = append(nths, int64((nDel+1)/2))
			}
		}
		for _, nth := range nths {
			out = append(out, scenario{Kind: "kill", Phase: kp.phase, Kill: &killSpec{Point: kp.point, Nth: nth, Job: 1}})
		}
		nk := uint64(len(killPhases))
		sel := func(shift uint) bool {
			return int((sa>>shift)%nk) == i || (thorough && int((sa>>(shift+16))%nk) == i)
		}
		maxPersist := 16 // every retry level of a persistent killer costs child processes
		if thorough {
			maxPersist = 24
		}
		if sel(0) && len(pr.spec.Files) <= maxPersist {
			out = append(out, scenario{Kind: "kill", Phase: kp.phase, Kill: &killSpec{Point: kp.point, Nth: 1, Job: 1, Persistent: true}})
		}
		if len(pr.spec.Files) > pr.spec.MaxBatch && sel(8) {
			out = append(out, scenario{Kind: "kill", Phase: kp.phase, Kill: &killSpec{Point: kp.point, Nth: 1, Job: 2}})
		}
	}
	return out
}

func checkC09(c *vlib.Ctx) {
	c.Rule("a case = one generated partition (3-40 small Parquet files written by arc's ArrowWriter: random schema, with/without arc:tags / arc:dedup_time, duplicate (tags,time) keys, NULLs, unique rid per row; hourly or daily tier; optionally already holding a compacted file) x one fault: (a) crash (storage frozen) at mutation N of an in-process job for every N, uploads also torn / unpromoted, (b) SIGKILL of the job child process at a phase of job.go under the real Manager cycle, once or persistently; then up to 3 restart cycles. Non-trivial = the fault point was reached.")
	c.Assume("the independent arrow-go Parquet reader (vpq) decodes files correctly; rows are identified by the unique rid the generator assigned")
	c.Assume("a crash is modelled as: storage mutations are atomic per Backend call (plus the two explicit partial-upload variants), the applied ones form a prefix, local scratch files of the dead process are gone")
	c.Assume("dedup key = union of the arc:tags of the partition's files + time; tag schema evolution only adds tags")

	thorough := !c.Quick()
	workers := runtime.NumCPU()
	if workers > 16 {
		workers = 16
	}
	if workers < 2 {
		workers = 2
	}

	// ---- replay of one recorded case ----
	if c.Replay != "" {
		var rd replayDetail
		if err := vlib.LoadReplay(c.Replay, &rd); err != nil {
			c.Inconclusive("cannot load replay: " + err.Error())
			return
		}
		a, _ := strconv.ParseUint(rd.SeedA, 10, 64)
		b, _ := strconv.ParseUint(rd.SeedB, 10, 64)
		pr := prepare(genPartition(rd.Idx, a, b, rd.Thorough))
		defer os.RemoveAll(pr.goldDir)
		if pr.broken != "" {
			c.Inconclusive(pr.broken)
			return
		}
		db := openDuck()
		defer db.Close()
		res := runCase(pr, rd.Scenario, db)
		c.Eval()
		if res.fired {
			c.Nontrivial("replay")
			c.Nontrivial("replay2")
		}
		report(c, res, thorough)
		fmt.Printf("replayed partition %d, %s: fired=%v findings=%d early=%d\n", rd.Idx, rd.Scenario.label(), res.fired, len(res.findings), len(res.early))
		return
	}

	nPart := c.N(20, 160)
	seeds := c.Rand("partitions")
	specs := make([]*partSpec, nPart)
	for i := range specs {
		specs[i] = genPartition(i, seeds.Uint64(), seeds.Uint64(), thorough)
	}

	// ---- stage 1: materialise, preparation cycle, mutation sequence of a complete job ----
	preps := make([]*prepared, nPart)
	fullRes := make([]*caseResult, nPart)
	parallel(workers, nPart, func(i int, db *sql.DB) {
		pr := prepare(specs[i])
		preps[i] = pr
		if pr.broken != "" {
			return
		}
		res := runCase(pr, scenario{Kind: "freeze", N: -1, Phase: "none (complete in-process job)"}, db)
		fullRes[i] = res
		pr.scen = scenarios(pr, res.events, thorough)
	})
	defer func() {
		for _, pr := range preps {
			if pr != nil {
				os.RemoveAll(pr.goldDir)
			}
		}
	}()

	type task struct {
		pr *prepared
		sc scenario
	}
	var tasks []task
	for i, pr := range preps {
		s := pr.spec
		c.Count("partitions", 1)
		c.Count("partition_files", int64(len(s.Files)))
		c.Count("partition_rows", int64(s.Rows))
		c.Count("rows_sharing_a_dedup_key", int64(s.DupKeyRows))
		c.Count("null_cells", int64(s.NullCells))
		c.Count("partitions_meta_"+s.MetaMode, 1)
		c.Count("partitions_tier_"+s.Tier, 1)
		if s.PreCompact {
			c.Count("partitions_starting_with_a_compacted_file", 1)
		}
		if len(s.Files) > s.MaxBatch {
			c.Count("partitions_with_several_batches", 1)
		}
		if pr.broken != "" {
			c.Inconclusive(fmt.Sprintf("partition %d: %s", i, pr.broken))
			continue
		}
		if s.PreCompact {
			c.Eval()
			c.Count("cases_clean_cycle", 1)
			if len(pr.baseline) > 0 {
				report(c, &caseResult{p: pr, sc: scenario{Kind: "clean", Phase: "none"}, findings: pr.baseline, when: "after the fault-free cycle", fired: true}, thorough)
			}
		}
		for _, sc := range pr.scen {
			tasks = append(tasks, task{pr, sc})
		}
	}

	// ---- stage 2: every fault of every partition ----
	results := make([]*caseResult, len(tasks))
	parallel(workers, len(tasks), func(i int, db *sql.DB) {
		results[i] = runCase(tasks[i].pr, tasks[i].sc, db)
	})
	all := append([]*caseResult{}, fullRes...)
	all = append(all, results...)

	hooksSeen := map[string]bool{}
	for _, res := range all {
		if res == nil {
			continue
		}
		c.Eval()
		for k, v := range res.counters {
			c.Count(k, v)
		}
		switch res.sc.Kind {
		case "freeze":
			c.Count("cases_crash_at_storage_mutation", 1)
			if res.fired && res.sc.RecFail {
				c.Count("crash_reached: input delete + recovery deletes failing once", 1)
			} else if res.fired {
				c.Count("crash_reached: "+res.sc.Phase, 1)
			}
		case "kill":
			c.Count("cases_job_process_killed", 1)
			if res.fired {
				c.Count("kill_fired: "+res.sc.Kill.Point, int64(len(res.killLog)))
				hooksSeen[res.sc.Kill.Point] = true
				if res.children > res.sc.Kill.Job {
					c.Count("kill_cases_with_adaptive_retry_children", 1)
					c.Count("adaptive_retry_children", int64(res.children-res.sc.Kill.Job))
				}
			} else {
				c.Count("kill_point_not_reached", 1)
			}
		}
		if res.inconcl != "" {
			c.Inconclusive(fmt.Sprintf("partition %d, %s: %s", res.p.spec.Idx, res.sc.label(), res.inconcl))
			continue
		}
		if res.fired {
			c.Nontrivial(fmt.Sprintf("%d/%s/%d/%s/%v/%v", res.p.spec.Idx, res.sc.Kind, res.sc.N, res.sc.Variant, res.sc.Kill, res.sc.RecFail))
		}
		report(c, res, thorough)
	}
	for _, kp := range killPhases {
		if !hooksSeen[kp.point] {
			c.Inconclusive("hook point " + kp.point + " never fired: is harness/compaction/repo-hooks.patch applied to the tree under test?")
			c.Floor(1 << 30) // a run without the process kills is not evidence for C09
		}
	}
	for i := 0; i < len(all) && i < 400; i += 50 {
		if r := all[i]; r != nil {
			c.Sample(map[string]any{"partition": r.p.spec.Idx, "tier": r.p.spec.Tier, "files": len(r.p.spec.Files), "rows": r.p.spec.Rows, "meta": r.p.spec.MetaMode,
				"fault": r.sc.label(), "fired": r.fired, "held": len(r.findings) == 0 && len(r.early) == 0 && len(r.earlyNK) == 0})
		}
	}
	if c.Quick() {
		c.Floor(150)
	} else {
		c.Floor(2000)
	}
}

// report turns the findings of a case into violations (first case per signature
// keeps the replay).
func report(c *vlib.Ctx, res *caseResult, thorough bool) {
	mk := func(f []finding) replayDetail {
		s := res.p.spec
		return replayDetail{Idx: s.Idx, SeedA: strconv.FormatUint(s.SeedA, 10), SeedB: strconv.FormatUint(s.SeedB, 10), Thorough: thorough,
			Scenario: res.sc, Spec: s, When: res.when, Findings: f, Early: res.early, Timeline: res.timeline, Events: res.events, KillLog: res.killLog,
			HowTo: "./check C09 quick --replay <this file>   (with VERIF_REPO pointing at a tree that has harness/compaction/repo-hooks.patch applied)"}
	}
	for _, f := range res.findings {
		sig := f.Effect + ": " + res.sc.label()
		if f.RootCause {
			sig = f.Effect
		}
		c.Violation(sig, mk([]finding{f}))
	}
	if len(res.early) > 0 {
		c.Violation("input removed before its rows are in a complete output file: "+res.sc.label(), mk(nil))
	}
	if len(res.earlyNK) > 0 {
		d := mk(nil)
		d.Early = res.earlyNK
		c.Violation(narrowKeyEffect, d)
	}
}

func openDuck() *sql.DB {
	db, err := sql.Open("duckdb", "")
	if err != nil {
		panic(err)
	}
	_, _ = db.Exec("SET threads=1")
	_, _ = db.Exec("SET memory_limit='256MB'")
	return db
}

// parallel runs fn(i) for i in [0,n) on a pool; every worker owns one DuckDB handle
// for in-process jobs (as a job child owns one).
func parallel(workers, n int, fn func(i int, db *sql.DB)) {
	if n == 0 {
		return
	}
	if workers > n {
		workers = n
	}
	ch := make(chan int)
	var wg sync.WaitGroup
	for w := 0; w < workers; w++ {
		wg.Add(1)
		go func() {
			defer wg.Done()
			db := openDuck()
			defer db.Close()
			for i := range ch {
				fn(i, db)
			}
		}()
	}
	for i := 0; i < n; i++ {
		ch <- i
	}
	close(ch)
	wg.Wait()
}
