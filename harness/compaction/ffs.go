package main

// ffs: a call-logging, crash-simulating storage.Backend wrapper (derived from
// harness/backup/faultfs.go). Mutations (Write, WriteReader, Delete, each item of a
// DeleteBatch) are numbered in call order. With freezeAt = N the first N mutations
// reach the inner backend and mutation N and every later one fail without touching
// it: what is on disk afterwards is exactly the state a process that died at its
// N-th storage mutation leaves behind. The mutation that hits the freeze can
// optionally be a torn upload (half of the bytes in LocalBackend's "<key>.part"
// staging file) or a complete but unpromoted one (all bytes in "<key>.part", the
// rename missing). Before a delete reaches the inner backend the onDelete observer
// runs, so the "no input removed early" monitor sees storage as it is at that moment.

import (
	"context"
	"errors"
	"fmt"
	"io"
	"sync"

	"github.com/basekick-labs/arc/internal/storage"
)

type mutEvent struct {
	Idx     int    `json:"idx"`
	Op      string `json:"op"` // write | upload | delete | rmdir
	Key     string `json:"key"`
	Applied bool   `json:"applied"`
	Variant string `json:"variant,omitempty"`
}

var errFrozen = errors.New("ffs: process is dead (simulated crash at this storage mutation)")

type ffs struct {
	inner    storage.Backend
	freezeAt int    // -1 = never
	variant  string // "" | torn | unpromoted : how an upload that hits the freeze ends
	onDelete func(key string)
	// failDelete, when set, makes deletes of the selected keys fail without reaching
	// storage (a storage error, not a crash: the caller keeps running)
	failDelete func(key string) bool

	mu     sync.Mutex
	n      int
	frozen bool
	events []mutEvent
}

func newFFS(inner storage.Backend, freezeAt int, variant string) *ffs {
	return &ffs{inner: inner, freezeAt: freezeAt, variant: variant}
}

// step registers one mutation and reports whether it may be applied.
func (f *ffs) step(op, key string) (idx int, apply bool) {
	f.mu.Lock()
	defer f.mu.Unlock()
	idx = f.n
	f.n++
	if f.frozen || (f.freezeAt >= 0 && idx >= f.freezeAt) {
		f.frozen = true
		f.events = append(f.events, mutEvent{Idx: idx, Op: op, Key: key})
		return idx, false
	}
	f.events = append(f.events, mutEvent{Idx: idx, Op: op, Key: key, Applied: true})
	return idx, true
}

func (f *ffs) Events() []mutEvent {
	f.mu.Lock()
	defer f.mu.Unlock()
	return append([]mutEvent(nil), f.events...)
}

func (f *ffs) Frozen() bool {
	f.mu.Lock()
	defer f.mu.Unlock()
	return f.frozen
}

func (f *ffs) Write(ctx context.Context, path string, data []byte) error {
	if _, ok := f.step("write", path); !ok {
		return errFrozen
	}
	return f.inner.Write(ctx, path, data)
}

type breakingReader struct {
	r   io.Reader
	err error
}

func (b *breakingReader) Read(p []byte) (int, error) {
	n, err := b.r.Read(p)
	if err == io.EOF {
		return n, b.err
	}
	return n, err
}

func (f *ffs) WriteReader(ctx context.Context, path string, reader io.Reader, size int64) error {
	idx, ok := f.step("upload", path)
	if ok {
		return f.inner.WriteReader(ctx, path, reader, size)
	}
	if idx == f.freezeAt {
		switch f.variant {
		case "torn":
			// the inner backend receives half of the bytes and then the stream breaks:
			// LocalBackend leaves "<path>.part" behind
			_ = f.inner.WriteReader(ctx, path, &breakingReader{r: io.LimitReader(reader, size/2), err: errFrozen}, size)
		case "unpromoted":
			// every byte reached the staging file, the process died before the rename
			if b, err := io.ReadAll(reader); err == nil {
				_ = f.inner.Write(ctx, path+".part", b)
			}
		}
	}
	return errFrozen
}

func (f *ffs) Delete(ctx context.Context, path string) error {
	if f.failDelete != nil && f.failDelete(path) {
		return errors.New("ffs: injected storage error: delete refused")
	}
	if _, ok := f.step("delete", path); !ok {
		return errFrozen
	}
	if f.onDelete != nil {
		f.onDelete(path)
	}
	return f.inner.Delete(ctx, path)
}

func (f *ffs) RemoveDirectory(ctx context.Context, path string) error {
	dr, ok := f.inner.(storage.DirectoryRemover)
	if !ok {
		return errors.New("ffs: inner backend cannot remove directories")
	}
	if f.Frozen() {
		return errFrozen
	}
	return dr.RemoveDirectory(ctx, path)
}

func (f *ffs) Read(ctx context.Context, path string) ([]byte, error) { return f.inner.Read(ctx, path) }
func (f *ffs) ReadTo(ctx context.Context, path string, w io.Writer) error {
	return f.inner.ReadTo(ctx, path, w)
}
func (f *ffs) ReadToAt(ctx context.Context, path string, w io.Writer, off int64) error {
	return f.inner.ReadToAt(ctx, path, w, off)
}
func (f *ffs) StatFile(ctx context.Context, path string) (int64, error) {
	return f.inner.StatFile(ctx, path)
}
func (f *ffs) List(ctx context.Context, prefix string) ([]string, error) {
	return f.inner.List(ctx, prefix)
}
func (f *ffs) Exists(ctx context.Context, path string) (bool, error) {
	return f.inner.Exists(ctx, path)
}
func (f *ffs) Close() error       { return nil }
func (f *ffs) Type() string       { return f.inner.Type() }
func (f *ffs) ConfigJSON() string { return f.inner.ConfigJSON() }

func (f *ffs) ListObjects(ctx context.Context, prefix string) ([]storage.ObjectInfo, error) {
	ol, ok := f.inner.(storage.ObjectLister)
	if !ok {
		return nil, errors.New("ffs: inner backend cannot list objects")
	}
	return ol.ListObjects(ctx, prefix)
}

func (f *ffs) ListDirectories(ctx context.Context, prefix string) ([]string, error) {
	dl, ok := f.inner.(storage.DirectoryLister)
	if !ok {
		return nil, errors.New("ffs: inner backend cannot list directories")
	}
	return dl.ListDirectories(ctx, prefix)
}

// ffsBatch additionally offers DeleteBatch (as LocalBackend, S3 and Azure do); like
// LocalBackend.DeleteBatch it deletes item by item, so a crash in the middle leaves a
// prefix of the items deleted.
type ffsBatch struct{ *ffs }

func (f ffsBatch) DeleteBatch(ctx context.Context, paths []string) error {
	var errs []error
	for _, p := range paths {
		if err := f.ffs.Delete(ctx, p); err != nil {
			errs = append(errs, fmt.Errorf("%s: %w", p, err))
		}
	}
	return errors.Join(errs...)
}

var (
	_ storage.Backend          = (*ffs)(nil)
	_ storage.ObjectLister     = (*ffs)(nil)
	_ storage.DirectoryLister  = (*ffs)(nil)
	_ storage.DirectoryRemover = (*ffs)(nil)
	_ storage.BatchDeleter     = ffsBatch{}
)

// backend returns the wrapper as the storage.Backend the code under test receives.
func (f *ffs) backend(batch bool) storage.Backend {
	if batch {
		return ffsBatch{f}
	}
	return f
}
