// Harness for the WAL area: C06 (reader returns only intact entries in append order).
package main

import (
	"flag"
	"fmt"
	"os"

	"github.com/basekick-labs/arc/internal/zzverif/vlib"
)

func main() {
	prop := flag.String("prop", "", "property id")
	flag.String("replay", "", "replay file")
	flag.Parse()
	switch *prop {
	case "C06":
		vlib.Main("C06", "fault_enumeration", checkC06)
	default:
		fmt.Println("unknown property", *prop)
		os.Exit(2)
	}
}
