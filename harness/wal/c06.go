package main

import (
	"bytes"
	"context"
	"encoding/binary"
	"fmt"
	"hash/crc32"
	"math/rand/v2"
	"os"
	"path/filepath"
	"reflect"
	"sort"
	"sync"
	"time"

	"github.com/Basekick-Labs/msgpack/v6"
	"github.com/basekick-labs/arc/internal/wal"
	"github.com/basekick-labs/arc/internal/zzverif/vlib"
	"github.com/rs/zerolog"
)

// One appended entry as the generator knows it.
type genEntry struct {
	Kind   string `json:"kind"` // row | raw | meta
	DB     string `json:"db,omitempty"`
	Marker string `json:"marker"`
	Size   int    `json:"size"`
}

type frame struct {
	Off, End int // [Off,End) byte span of header+payload inside the file
}

// walk the framing independently of arc's reader.
func frameWalk(b []byte) ([]frame, bool) {
	if len(b) < wal.WALFileHeaderSize {
		return nil, false
	}
	var fr []frame
	off := wal.WALFileHeaderSize
	for off < len(b) {
		if off+wal.WALEntryHeaderSize > len(b) {
			return fr, false
		}
		n := int(binary.BigEndian.Uint32(b[off : off+4]))
		end := off + wal.WALEntryHeaderSize + n
		if end > len(b) {
			return fr, false
		}
		if crc32.ChecksumIEEE(b[off+wal.WALEntryHeaderSize:end]) != binary.BigEndian.Uint32(b[off+12:off+16]) {
			return fr, false
		}
		fr = append(fr, frame{off, end})
		off = end
	}
	return fr, true
}

// canonical view of what the reader yields for one entry (TimestampUS excluded: it
// is not covered by the CRC and outside the property).
type yielded struct {
	Records []map[string]interface{}
	DB, M   string
	Cols    map[string][]interface{}
	IsCol   bool
}

func canon(e wal.Entry) yielded {
	if e.ColumnarData != nil {
		return yielded{IsCol: true, DB: e.ColumnarData.Database, M: e.ColumnarData.Measurement, Cols: e.ColumnarData.Columns}
	}
	return yielded{Records: e.Records}
}

func regionOf(pos int, frames []frame, envLens []int) string {
	if pos < wal.WALFileHeaderSize {
		return "filehdr"
	}
	for i, f := range frames {
		if pos >= f.Off && pos < f.End {
			r := pos - f.Off
			switch {
			case r < 4:
				return "len"
			case r < 12:
				return "ts"
			case r < 16:
				return "crc"
			case r < 16+envLens[i]:
				return "envelope"
			default:
				return "payload"
			}
		}
	}
	return "tail"
}

func summarize(ys []yielded) []string {
	out := make([]string, len(ys))
	for i, y := range ys {
		if y.IsCol {
			out[i] = fmt.Sprintf("col db=%q m=%q cols=%d", y.DB, y.M, len(y.Cols))
		} else if len(y.Records) > 0 {
			out[i] = fmt.Sprintf("row n=%d marker=%v", len(y.Records), y.Records[0]["marker"])
		} else {
			out[i] = "row n=0"
		}
	}
	return out
}

func replayC06(c *vlib.Ctx) {
	var d struct {
		File  []byte `json:"file"`
		Pos   int    `json:"pos"`
		Val   byte   `json:"val"`
		Trunc *int   `json:"trunc"`
	}
	if err := vlib.LoadReplay(c.Replay, &d); err != nil {
		panic(err)
	}
	dir := vlib.TempDir("c06replay")
	defer os.RemoveAll(dir)
	p := filepath.Join(dir, "x.wal")
	clean, _ := readMut(p, d.File)
	mut := append([]byte(nil), d.File...)
	if d.Trunc != nil {
		mut = mut[:*d.Trunc]
	} else {
		mut[d.Pos] = d.Val
	}
	got, err := readMut(p, mut)
	fmt.Println("clean:", summarize(clean))
	fmt.Println("got:  ", summarize(got), err)
	bad, _ := isSubseq(got, clean)
	c.EvalN(2)
	c.Nontrivial("a")
	c.Nontrivial("b")
	if bad >= 0 {
		c.Violation("replay: non-subsequence", map[string]any{"got": summarize(got)})
	}
}

func checkC06(c *vlib.Ctx) {
	if c.Replay != "" {
		replayC06(c)
		return
	}
	c.Rule("(A) files written by the real wal.Writer (Append/AppendRaw/AppendRawWithMeta, rotation forced) then EVERY truncation offset and single-byte corruptions (every position x 3 values; sampled positions x all 255 values) read back with wal.Reader.ReadAll, a sample also through wal.Recovery callbacks; oracle: yielded entries are an in-order subsequence (deep equality) of the clean file's entries and every entry that ends at or before the truncation offset is yielded. (B) rapid rotation: MaxSizeBytes=48, 400 back-to-back appends, every appended entry must be yielded exactly once from the undamaged files. non-trivial = distinct (file content hash, mutation) pairs where the mutated file differs from the clean one")
	c.Assume("clean-file reference entries come from the same reader on the unmutated file, cross-checked against the generator's markers and an independent frame walk")
	c.Assume("TimestampUS is outside the property (not covered by the CRC) and is not compared")
	nFiles := c.N(16, 480)
	nop := zerolog.Nop()
	var wg sync.WaitGroup
	sem := make(chan struct{}, 12)
	for fi := 0; fi < nFiles; fi++ {
		wg.Add(1)
		sem <- struct{}{}
		go func(fi int) {
			defer wg.Done()
			defer func() { <-sem }()
			rng := c.Rand(fmt.Sprintf("gen%d", fi))
			dir := vlib.TempDir("c06")
			entries := writeWAL(c, rng, dir, fi)
			files, _ := filepath.Glob(filepath.Join(dir, "*.wal"))
			sort.Strings(files)
			c.Count("wal_files_written", int64(len(files)))
			if len(files) > 1 {
				c.Count("rotations", int64(len(files)-1))
			}
			// reference: clean read, cross-check with generator
			var cleanAll []yielded
			type perFile struct {
				path   string
				data   []byte
				clean  []yielded
				frames []frame
				envs   []int
			}
			var pfs []perFile
			for _, f := range files {
				data, err := os.ReadFile(f)
				if err != nil {
					panic(err)
				}
				es, err := wal.NewReader(f, nop).ReadAll()
				if err != nil {
					c.Violation("clean-read-error", map[string]any{"err": err.Error(), "entries": entries})
					return
				}
				fr, ok := frameWalk(data)
				if !ok || len(fr) != len(es) {
					c.Violation("clean-frame-mismatch", map[string]any{"frames": len(fr), "entries": len(es), "gen": entries})
					return
				}
				pf := perFile{path: f, data: data, frames: fr}
				for i, e := range es {
					pf.clean = append(pf.clean, canon(e))
					env := 0
					pl := data[fr[i].Off+16 : fr[i].End]
					if len(pl) > 3 && pl[0] == wal.WALEnvelopeMarker {
						env = 3 + int(binary.BigEndian.Uint16(pl[1:3]))
					}
					pf.envs = append(pf.envs, env)
				}
				cleanAll = append(cleanAll, pf.clean...)
				pfs = append(pfs, pf)
			}
			// generator ground truth: every appended entry is present once, in order, right db
			if len(cleanAll) != len(entries) {
				c.Violation("clean-count", map[string]any{"got": len(cleanAll), "want": len(entries), "gen": entries})
			} else {
				for i, g := range entries {
					y := cleanAll[i]
					ok := false
					switch g.Kind {
					case "row":
						ok = !y.IsCol && len(y.Records) > 0 && y.Records[0]["marker"] == g.Marker
					case "raw":
						ok = y.IsCol && y.M == g.Marker && y.DB == ""
					case "meta":
						ok = y.IsCol && y.M == g.Marker && y.DB == g.DB
					}
					if !ok {
						c.Violation("clean-mismatch kind="+g.Kind, map[string]any{"index": i, "gen": entries})
					}
				}
			}
			for _, pf := range pfs {
				mutateAndCheck(c, rng, pf.path, pf.data, pf.clean, pf.frames, pf.envs, entries)
			}
			// Recovery-level observation on a sample: truncate/corrupt, run Recovery, callbacks
			recoverySample(c, rng, dir, pfs[0].data, pfs[0].clean, pfs[0].frames, entries)
			os.RemoveAll(dir)
			if fi < 3 {
				c.Sample(map[string]any{"file": fi, "entries": entries, "bytes": len(pfs[0].data)})
			}
		}(fi)
	}
	wg.Wait()
	rapidRotation(c)
	c.Floor(1000)
}

func writeWAL(c *vlib.Ctx, rng *rand.Rand, dir string, fi int) []genEntry {
	maxSize := int64(100 << 20)
	if rng.IntN(3) == 0 {
		maxSize = int64(200 + rng.IntN(600)) // force rotation
	}
	w, err := wal.NewWriter(&wal.WriterConfig{
		WALDir: dir, SyncMode: wal.SyncModeAsync, MaxSizeBytes: maxSize, MaxAge: time.Hour,
		SyncInterval: 0, SyncBytes: 0, BufferSize: 1000, Logger: zerolog.Nop(),
	})
	if err != nil {
		panic(err)
	}
	n := 2 + rng.IntN(11)
	var out []genEntry
	dbs := []string{"", "db1", "d", "prod_metrics", "\x01\x00\x03abc"}
	for i := 0; i < n; i++ {
		marker := fmt.Sprintf("f%de%d", fi, i)
		size := 1 + rng.IntN(300)
		fill := make([]byte, size)
		for j := range fill {
			fill[j] = byte(rng.IntN(256))
		}
		switch rng.IntN(3) {
		case 0:
			nrec := 1 + rng.IntN(3)
			recs := make([]map[string]interface{}, nrec)
			for k := range recs {
				recs[k] = map[string]interface{}{"marker": marker, "k": int64(k), "fill": string(fill[:size/nrec])}
			}
			if err := w.Append(recs); err != nil {
				panic(err)
			}
			out = append(out, genEntry{Kind: "row", Marker: marker, Size: size})
		case 1:
			if err := w.AppendRaw(colPayload(rng, marker, fill)); err != nil {
				panic(err)
			}
			out = append(out, genEntry{Kind: "raw", Marker: marker, Size: size})
		default:
			db := dbs[rng.IntN(len(dbs))]
			if err := w.AppendRawWithMeta(db, colPayload(rng, marker, fill)); err != nil {
				panic(err)
			}
			out = append(out, genEntry{Kind: "meta", DB: db, Marker: marker, Size: size})
		}
		if maxSize < 1<<20 {
			// rotation names carry ns timestamps; give the writer loop time so that file
			// order (by name) is append order
			time.Sleep(200 * time.Microsecond)
		}
	}
	if err := w.Close(); err != nil {
		panic(err)
	}
	return out
}

// a columnar payload; sometimes the fill column embeds a complete, CRC-valid WAL
// frame so that a reader that resynchronises inside a payload would fabricate it.
func colPayload(rng *rand.Rand, marker string, fill []byte) []byte {
	vals := []interface{}{int64(len(fill)), string(fill)}
	if rng.IntN(4) == 0 {
		inner, _ := msgpack.Marshal(map[string]interface{}{"m": "FABRICATED", "columns": map[string]interface{}{"x": []interface{}{int64(1)}}})
		fr := make([]byte, 16+len(inner))
		binary.BigEndian.PutUint32(fr[0:4], uint32(len(inner)))
		binary.BigEndian.PutUint32(fr[12:16], crc32.ChecksumIEEE(inner))
		copy(fr[16:], inner)
		vals = append(vals, fr)
	}
	b, err := msgpack.Marshal(map[string]interface{}{"m": marker, "columns": map[string]interface{}{"time": []interface{}{int64(1700000000000000)}, "v": vals}})
	if err != nil {
		panic(err)
	}
	return b
}

// isSubseq reports whether got is an in-order subsequence of clean; returns index of
// the first offending got element otherwise. Greedy matching is exact because
// markers make clean entries pairwise distinct.
func isSubseq(got, clean []yielded) (int, []bool) {
	present := make([]bool, len(clean))
	j := 0
	for i, g := range got {
		found := false
		for j < len(clean) {
			if reflect.DeepEqual(g, clean[j]) {
				present[j] = true
				j++
				found = true
				break
			}
			j++
		}
		if !found {
			return i, present
		}
	}
	return -1, present
}

func readMut(path string, data []byte) ([]yielded, error) {
	if err := os.WriteFile(path, data, 0o600); err != nil {
		panic(err)
	}
	es, err := wal.NewReader(path, zerolog.Nop()).ReadAll()
	if err != nil {
		return nil, err
	}
	out := make([]yielded, len(es))
	for i, e := range es {
		out[i] = canon(e)
	}
	return out, nil
}

func mutateAndCheck(c *vlib.Ctx, rng *rand.Rand, path string, data []byte, clean []yielded, frames []frame, envs []int, gen []genEntry) {
	mpath := path + ".mut"
	defer os.Remove(mpath)
	h := crc32.ChecksumIEEE(data)
	// (1) every truncation offset
	for t := 0; t < len(data); t++ {
		c.Eval()
		got, err := readMut(mpath, data[:t])
		c.Nontrivial(fmt.Sprintf("%08x/trunc/%d", h, t))
		if err != nil {
			// only a damaged file header may make the whole read fail
			if t >= wal.WALFileHeaderSize {
				c.Violation("truncate: read error region="+regionOf(t, frames, envs), map[string]any{"trunc": t, "err": err.Error(), "gen": gen})
			}
			continue
		}
		bad, present := isSubseq(got, clean)
		if bad >= 0 {
			c.Violation("truncate: non-subsequence region="+regionOf(t, frames, envs), map[string]any{"trunc": t, "gen": gen, "got_index": bad, "got": summarize(got), "file": data})
			continue
		}
		for i, f := range frames {
			if f.End <= t && !present[i] {
				c.Violation("truncate: complete entry hidden region="+regionOf(t, frames, envs), map[string]any{"trunc": t, "missing_entry": i, "entry_end": f.End, "gen": gen})
				break
			}
		}
		c.Count("truncations", 1)
	}
	// (2) single-byte corruption
	buf := make([]byte, len(data))
	tryCorrupt := func(pos int, val byte) {
		if data[pos] == val {
			return
		}
		copy(buf, data)
		buf[pos] = val
		c.Eval()
		c.Nontrivial(fmt.Sprintf("%08x/flip/%d/%d", h, pos, val))
		reg := regionOf(pos, frames, envs)
		got, err := readMut(mpath, buf)
		c.Count("corruptions_"+reg, 1)
		if err != nil {
			if reg != "filehdr" {
				c.Violation("corrupt: read error region="+reg, map[string]any{"pos": pos, "val": val, "err": err.Error(), "gen": gen})
			}
			return
		}
		bad, present := isSubseq(got, clean)
		if bad >= 0 {
			if got[bad].IsCol && got[bad].M == "FABRICATED" {
				// resynchronisation inside a payload that embeds a CRC-valid frame
				c.Violation("corrupt: payload-embedded frame yielded as an entry after corruption of region="+reg, map[string]any{"pos": pos, "val": val, "gen": gen, "got": summarize(got), "file": data})
				return
			}
			c.Violation("corrupt: non-subsequence region="+reg, map[string]any{"pos": pos, "val": val, "gen": gen, "got_index": bad, "got": summarize(got), "file": data})
			return
		}
		// an entry untouched by the corruption and lying entirely before it must survive
		for i, f := range frames {
			if f.End <= pos && !present[i] && pos >= wal.WALFileHeaderSize {
				c.Violation("corrupt: earlier entry hidden region="+reg, map[string]any{"pos": pos, "val": val, "missing_entry": i, "gen": gen})
				break
			}
		}
	}
	for pos := 0; pos < len(data); pos++ {
		tryCorrupt(pos, data[pos]^0x01)
		tryCorrupt(pos, data[pos]^0x80)
		tryCorrupt(pos, byte(rng.IntN(256)))
	}
	// all 255 values at every header byte of up to 3 frames and at sampled payload bytes
	nfr := len(frames)
	if nfr > 3 {
		nfr = 3
	}
	for _, fi := range rng.Perm(len(frames))[:nfr] {
		f := frames[fi]
		positions := []int{}
		for p := f.Off; p < f.Off+16+envs[fi] && p < f.End; p++ {
			if p >= f.Off+4 && p < f.Off+12 {
				continue // timestamp: outside the property
			}
			positions = append(positions, p)
		}
		for k := 0; k < 4; k++ {
			positions = append(positions, f.Off+16+rng.IntN(f.End-f.Off-16))
		}
		if c.Quick() && len(positions) > 14 {
			positions = positions[:14]
		}
		for _, p := range positions {
			for v := 0; v < 256; v++ {
				tryCorrupt(p, byte(v))
			}
		}
	}
}

func recoverySample(c *vlib.Ctx, rng *rand.Rand, dir string, data []byte, clean []yielded, frames []frame, gen []genEntry) {
	for k := 0; k < 6; k++ {
		rdir := vlib.TempDir("c06r")
		mut := append([]byte(nil), data...)
		what := ""
		trunc := -1
		if k%2 == 0 {
			trunc = rng.IntN(len(data) + 1)
			mut = mut[:trunc]
			what = fmt.Sprintf("trunc@%d", trunc)
		} else {
			p := wal.WALFileHeaderSize + rng.IntN(len(data)-wal.WALFileHeaderSize)
			mut[p] ^= byte(1 + rng.IntN(255))
			what = fmt.Sprintf("flip@%d", p)
		}
		os.WriteFile(filepath.Join(rdir, "arc-20240101_000000.000000000.wal"), mut, 0o600)
		var got []yielded
		rec := wal.NewRecovery(rdir, zerolog.Nop())
		_, err := rec.RecoverWithOptions(context.Background(),
			func(ctx context.Context, records []map[string]interface{}) error {
				got = append(got, yielded{Records: records})
				return nil
			},
			&wal.RecoveryOptions{ColumnarCallback: func(ctx context.Context, db, m string, cols map[string][]interface{}) error {
				got = append(got, yielded{IsCol: true, DB: db, M: m, Cols: cols})
				return nil
			}})
		c.Eval()
		c.Count("recovery_runs", 1)
		c.Count("recovery_entries_yielded", int64(len(got)))
		c.Nontrivial(fmt.Sprintf("%08x/recovery/%s", crc32.ChecksumIEEE(data), what))
		if err == nil {
			bad, present := isSubseq(got, clean)
			if bad >= 0 {
				c.Violation("recovery: non-subsequence", map[string]any{"mutation": what, "gen": gen})
			} else if trunc >= 0 {
				for i, f := range frames {
					if f.End <= trunc && !present[i] {
						c.Violation("recovery: complete entry hidden", map[string]any{"mutation": what, "missing": i, "gen": gen})
						break
					}
				}
			}
		}
		os.RemoveAll(rdir)
	}
}

// rapidRotation: the writer rotates after (almost) every entry with no pause between
// appends, so several rotations fall into the same millisecond. Every appended entry
// must be yielded exactly once and intact by Reader.ReadAll over the directory's
// files and by Recovery; no file may contain more than one file header.
func rapidRotation(c *vlib.Ctx) {
	rounds := c.N(3, 30)
	for rd := 0; rd < rounds; rd++ {
		dir := vlib.TempDir("c06rr")
		w, err := wal.NewWriter(&wal.WriterConfig{WALDir: dir, SyncMode: wal.SyncModeAsync, MaxSizeBytes: 48, MaxAge: time.Hour,
			SyncInterval: 0, SyncBytes: 0, BufferSize: 10000, Logger: zerolog.Nop()})
		if err != nil {
			panic(err)
		}
		n := 400
		want := map[string]int{}
		for i := 0; i < n; i++ {
			marker := fmt.Sprintf("rr%d-%d", rd, i)
			var aerr error
			switch i % 3 {
			case 0:
				aerr = w.Append([]map[string]interface{}{{"marker": marker, "k": int64(i)}})
			case 1:
				aerr = w.AppendRaw(colPayload(rand.New(rand.NewPCG(uint64(i), 7)), marker, []byte("xy")))
			default:
				aerr = w.AppendRawWithMeta("db1", colPayload(rand.New(rand.NewPCG(uint64(i), 9)), marker, []byte("z")))
			}
			if aerr == nil {
				want[marker]++
			}
		}
		w.Close()
		files, _ := filepath.Glob(filepath.Join(dir, "*.wal"))
		sort.Strings(files)
		got := map[string]int{}
		corrupted := int64(0)
		multiHeader := 0
		for _, f := range files {
			data, _ := os.ReadFile(f)
			if bytes.Count(data, append(append([]byte{}, wal.WALMagic...), 0, 1, 1)) > 1 {
				multiHeader++
			}
			rd := wal.NewReader(f, zerolog.Nop())
			es, err := rd.ReadAll()
			if err != nil {
				c.Violation("rapid rotation: intact file unreadable", map[string]any{"err": err.Error()})
				continue
			}
			corrupted += rd.CorruptedEntries
			for _, e := range es {
				y := canon(e)
				if y.IsCol {
					got[y.M]++
				} else if len(y.Records) > 0 {
					got[fmt.Sprint(y.Records[0]["marker"])]++
				}
			}
		}
		c.Eval()
		c.Count("rapid_rotation_files", int64(len(files)))
		c.Count("rapid_rotation_entries", int64(len(want)))
		c.Nontrivial(fmt.Sprintf("rapid-rotation/%d/%d", rd, len(files)))
		missing, dup := 0, 0
		for m := range want {
			if got[m] == 0 {
				missing++
			} else if got[m] > 1 {
				dup++
			}
		}
		if missing > 0 || dup > 0 || corrupted > 0 || multiHeader > 0 {
			c.Violation("rapid rotation: completely written entries of never-damaged files are hidden or duplicated", map[string]any{"appended": len(want), "missing": missing, "duplicated": dup, "corrupted_entries_reported": corrupted, "files": len(files), "files_with_more_than_one_header": multiHeader})
		}
		os.RemoveAll(dir)
	}
}
