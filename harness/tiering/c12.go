package main

// C12: tier migration never makes data unreadable or visible twice.
//
// Real tiering.Manager (license shim), two real LocalBackends behind faultfs, real
// SQLite metadata with the trigger hook, real QueryHandler with SetTieringManager.
// For every call a fault-free migration cycle makes (storage calls on both tiers and
// metadata writes, in one event log) the cycle is re-run from the same initial state
// with a crash or a single failure at that call; the state is observed at the crash
// instant (sha256 per tier + tier_files row), then the node is "restarted" (new
// Manager, same directories, same SQLite file, no faults) and cycles are run until
// nothing changes; then rows are counted through the query path.

import (
	"context"
	"database/sql"
	"encoding/json"
	"fmt"
	"math/rand/v2"
	"os"
	"path/filepath"
	"sort"
	"strings"
	"sync"
	"time"

	"github.com/rs/zerolog"

	"github.com/basekick-labs/arc/internal/config"
	"github.com/basekick-labs/arc/internal/license"
	"github.com/basekick-labs/arc/internal/storage"
	"github.com/basekick-labs/arc/internal/tiering"
	"github.com/basekick-labs/arc/internal/zzverif/vfix"
	"github.com/basekick-labs/arc/internal/zzverif/vlib"
)

const measurement = "m"

// FileSpec places one template file below the case database.
type FileSpec struct {
	Class    string `json:"class"`
	Rel      string `json:"rel"` // m/2020/MM/DD/HH/<name>.parquet
	Resident bool   `json:"resident,omitempty"`
}

// Shape is the initial state of a case.
type Shape struct {
	Name       string     `json:"name"`
	Files      []FileSpec `json:"files"`
	Concurrent int        `json:"concurrent"`
}

// RunSpec is one migration cycle with armed faults, followed by a "restart".
type RunSpec struct {
	Faults []Fault `json:"faults"`
}

// Case is a shape plus the faulted cycles to run before the fault-free recovery.
type Case struct {
	Idx   int       `json:"idx"`
	Wave  string    `json:"wave"`
	Shape Shape     `json:"shape"`
	Runs  []RunSpec `json:"runs"`
	Seed  int64     `json:"seed"`
	// SameProcess: no restart anywhere; one Manager (hot wrapped, cold not: the query
	// handler needs the concrete *LocalBackend) serves queries before, the faulted
	// cycle(s), the recovery cycles and the final queries. Only for plans without a
	// crash and without faults on the cold store.
	SameProcess bool `json:"same_process,omitempty"`
}

func (cs Case) label() string {
	var parts []string
	for _, r := range cs.Runs {
		var fs []string
		for _, f := range r.Faults {
			fs = append(fs, f.String())
		}
		parts = append(parts, strings.Join(fs, " & "))
	}
	sp := ""
	if cs.SameProcess {
		sp = " (one process, queried before)"
	}
	if len(parts) == 1 && parts[0] == "" {
		return cs.Shape.Name + ": no fault" + sp
	}
	return cs.Shape.Name + ": " + strings.Join(parts, " ; then ") + sp
}

// stepOf names the migration step a call belongs to.
func stepOf(p Point) string {
	switch p.Store + "." + p.Op {
	case "hot.ListObjects":
		return "scan"
	case "meta.register":
		return "register"
	case "meta.tier:hot>cold":
		return "metadata-update"
	case "meta.tier:cold>hot":
		return "scan-reregister"
	case "meta.history.start", "meta.history.end":
		return "history-record"
	case "meta.unregister":
		return "unregister"
	case "hot.ReadTo":
		return "copy-read"
	case "cold.WriteReader":
		return "copy-write"
	case "cold.Delete":
		return "rollback-delete"
	case "hot.Delete":
		return "source-delete"
	case "hot.RemoveDirectory":
		return "dir-cleanup"
	case "hot.Exists":
		return "reconcile-exists"
	}
	return p.Store + "." + p.Op
}

func (cs Case) stepText() string {
	var parts []string
	for _, r := range cs.Runs {
		var fs []string
		for _, f := range r.Faults {
			if f.Sticky {
				fs = append(fs, fmt.Sprintf("%s of every %s", f.Kind, stepOf(f.At)))
			} else {
				fs = append(fs, fmt.Sprintf("%s %s %s", f.Kind, f.Phase, stepOf(f.At)))
			}
		}
		parts = append(parts, strings.Join(fs, " + "))
	}
	if len(parts) == 1 && parts[0] == "" {
		return "no fault"
	}
	return strings.Join(parts, ", restart, ")
}

// FileState is what the harness sees of one original file.
type FileState struct {
	Rel  string `json:"rel"`
	Hot  string `json:"hot"`  // full | absent | partial
	Cold string `json:"cold"` // full | absent | partial
	Meta string `json:"meta"` // hot | cold | none
	Note string `json:"note,omitempty"`
}

func (s FileState) class() string {
	return fmt.Sprintf("hot=%s cold=%s meta=%s", s.Hot, s.Cold, s.Meta)
}

type finding struct {
	Clause string
	State  string
	Detail map[string]any
}

type runReport struct {
	Faults []string    `json:"faults"`
	Fired  int         `json:"fired"`
	Frozen bool        `json:"crashed"`
	States []FileState `json:"states_at_crash_instant"`
	Log    []Event     `json:"-"`
}

type result struct {
	idx       int
	cs        Case
	findings  []finding
	inconcl   string
	counters  map[string]int64
	goldenLog []Event
	runs      []runReport
	recovery  [][]Event // logs of the recovery rounds
	rounds    int
	final     []FileState
	nontriv   bool
}

// ── worker ──────────────────────────────────────────────────────────────

type worker struct {
	id      int
	n       *vfix.Node
	ctl     *Ctl
	driver  string
	hotRaw  *storage.LocalBackend
	coldRaw *storage.LocalBackend
	hot     *FS
	cold    *FS
	coldDir string
	metaDir string
	tpl     map[string][]*Template
	lic     *license.Client
	seq     int
}

func newWorker(id int, tpl map[string][]*Template) (*worker, error) {
	n, err := vfix.NewNode(vfix.Options{WithQuery: true})
	if err != nil {
		return nil, err
	}
	w := &worker{id: id, n: n, ctl: newCtl(), tpl: tpl, hotRaw: n.Backend}
	w.driver = registerMetaDriver(w.ctl)
	// arc has no configuration for a LOCAL cold tier (production: S3/Azure), so the
	// DuckDB sandbox has no allow-list entry for one; the cold root is therefore put
	// below the node's DuckDB temp directory, which the production sandbox allows.
	w.coldDir = filepath.Join(n.Dir, "duckdb-tmp", "coldtier")
	w.metaDir = filepath.Join(n.Dir, "meta")
	if err := os.MkdirAll(w.metaDir, 0o755); err != nil {
		return nil, err
	}
	cb, err := storage.NewLocalBackend(w.coldDir, zerolog.Nop())
	if err != nil {
		return nil, err
	}
	w.coldRaw = cb
	w.hot = newFS("hot", w.hotRaw, w.ctl)
	w.cold = newFS("cold", w.coldRaw, w.ctl)
	w.lic = license.NewClientForVerif(&license.License{
		LicenseKey: "verif", CustomerID: "verif", Tier: license.TierEnterprise, Status: "active",
		Features:  []string{license.FeatureTieredStorage},
		ExpiresAt: time.Date(2999, 1, 1, 0, 0, 0, 0, time.UTC), DaysRemaining: 100000,
	})
	return w, nil
}

func (w *worker) close() {
	w.coldRaw.Close()
	w.n.Close()
}

func tierCfg(concurrent int) *config.TieredStorageConfig {
	return &config.TieredStorageConfig{
		Enabled: true, MigrationSchedule: "0 2 * * *", MigrationMaxConcurrent: concurrent, MigrationBatchSize: 100,
		DefaultHotMaxAgeDays: 30, MigrationHistoryRetentionDays: 90,
		Cold: config.ColdTierConfig{Enabled: true, Backend: "local"},
	}
}

// process is one "arc process": a SQLite handle and a Manager over it.
type process struct {
	db  *sql.DB
	mgr *tiering.Manager
}

func (w *worker) start(metaFile string, concurrent int, live bool) (*process, error) {
	db, err := openMeta(w.driver, metaFile)
	if err != nil {
		return nil, err
	}
	var hot, cold storage.Backend = w.hot, w.cold
	if live {
		// recovery + query phase (no faults injected any more): the query handler calls
		// storage.GetStoragePath(coldBackend), which type-switches on *LocalBackend; a
		// wrapper would make it build "./data/..." for the cold tier. The hot path comes
		// from the handler's own backend, so hot stays wrapped (call log).
		cold = w.coldRaw
	}
	mgr, err := tiering.NewManager(&tiering.ManagerConfig{
		HotBackend: hot, ColdBackend: cold, DB: db, Config: tierCfg(concurrent),
		LicenseClient: w.lic, Logger: zerolog.Nop(),
	})
	if err != nil {
		db.Close()
		return nil, err
	}
	if _, err := db.Exec(metaTriggers); err != nil {
		db.Close()
		return nil, fmt.Errorf("install metadata triggers: %w", err)
	}
	return &process{db: db, mgr: mgr}, nil
}

func (p *process) stop() { p.db.Close() }

func partitionTime(rel string) time.Time {
	parts := strings.Split(rel, "/")
	var y, mo, d, h int
	fmt.Sscan(parts[1], &y)
	fmt.Sscan(parts[2], &mo)
	fmt.Sscan(parts[3], &d)
	fmt.Sscan(parts[4], &h)
	return time.Date(y, time.Month(mo), d, h, 0, 0, 0, time.UTC)
}

func (w *worker) template(class string) *Template {
	l := w.tpl[class]
	best := l[0]
	for _, t := range l {
		if t.Size > best.Size {
			best = t
		}
	}
	return best
}

func fileClass(root, db, rel string, t *Template) (string, string) {
	b, err := os.ReadFile(filepath.Join(root, db, filepath.FromSlash(rel)))
	if err != nil {
		if os.IsNotExist(err) {
			return "absent", ""
		}
		return "partial", "unreadable: " + err.Error()
	}
	if int64(len(b)) == t.Size && shaHex(b) == t.Sha {
		return "full", ""
	}
	return "partial", fmt.Sprintf("%d of %d bytes, sha256 differs", len(b), t.Size)
}

func (w *worker) observe(db *sql.DB, dbname string, sh Shape) ([]FileState, error) {
	tiers, err := metaTiers(db, dbname)
	if err != nil {
		return nil, err
	}
	var out []FileState
	for _, f := range sh.Files {
		t := w.template(f.Class)
		st := FileState{Rel: f.Rel, Meta: "none"}
		var n1, n2 string
		st.Hot, n1 = fileClass(w.n.Root, dbname, f.Rel, t)
		st.Cold, n2 = fileClass(w.coldDir, dbname, f.Rel, t)
		st.Note = strings.TrimSpace(n1 + " " + n2)
		if tr, ok := tiers[dbname+"/"+f.Rel]; ok {
			st.Meta = tr
		}
		out = append(out, st)
	}
	return out, nil
}

// treeDigest lists every file below root/db with its sha (quiescence detection).
func treeDigest(root, db string) string {
	var items []string
	filepath.Walk(filepath.Join(root, db), func(p string, info os.FileInfo, err error) error {
		if err != nil {
			return nil
		}
		rel, _ := filepath.Rel(root, p)
		if info.IsDir() {
			items = append(items, "d:"+rel)
			return nil
		}
		b, _ := os.ReadFile(p)
		items = append(items, "f:"+rel+":"+shaHex(b))
		return nil
	})
	sort.Strings(items)
	return strings.Join(items, "\n")
}

// judgeInstant applies the crash-instant clause to one observation.
func judgeInstant(states []FileState, when string, add func(clause, state string, d map[string]any)) {
	for _, s := range states {
		switch {
		case s.Hot != "full" && s.Cold != "full":
			add("file complete in no tier "+when, s.class(), map[string]any{"file": s})
		case s.Hot == "partial" || s.Cold == "partial":
			add("incomplete copy stored under the final file name "+when, s.class(), map[string]any{"file": s})
		case (s.Meta == "hot" && s.Hot != "full") || (s.Meta == "cold" && s.Cold != "full"):
			add("tier metadata points to a tier that does not hold the file (complete only in the other tier) "+when, s.class(), map[string]any{"file": s})
		}
	}
}

const maxRounds = 6

func (w *worker) run(cs Case) (res result) {
	res = result{idx: cs.Idx, cs: cs, counters: map[string]int64{}}
	cnt := func(k string, v int64) { res.counters[k] += v }
	t0 := time.Now()
	lap := func(k string) {
		if os.Getenv("VERIF_DEBUG") != "" {
			cnt("dbg_ms_"+k, time.Since(t0).Milliseconds())
		}
		t0 = time.Now()
	}
	defer lap("query")
	add := func(clause, state string, d map[string]any) {
		res.findings = append(res.findings, finding{Clause: clause, State: state, Detail: d})
	}
	w.seq++
	dbname := fmt.Sprintf("c%dw%d", w.seq, w.id)
	metaFile := filepath.Join(w.metaDir, dbname+".db")
	defer func() {
		os.RemoveAll(filepath.Join(w.n.Root, dbname))
		os.RemoveAll(filepath.Join(w.coldDir, dbname))
		for _, sfx := range []string{"", "-wal", "-shm"} {
			os.Remove(metaFile + sfx)
		}
	}()
	ctx := context.Background()

	// 1. initial state: files in hot (bytes written by arc's ingest), registered the way
	// ArrowBuffer.registerFileInTiering does (MetadataStore.RecordFile, tier hot)
	want := map[int64]string{}
	for _, f := range cs.Shape.Files {
		t := w.template(f.Class)
		abs := filepath.Join(w.n.Root, dbname, filepath.FromSlash(f.Rel))
		if err := os.MkdirAll(filepath.Dir(abs), 0o755); err != nil {
			res.inconcl = err.Error()
			return
		}
		if err := os.WriteFile(abs, t.Bytes, 0o644); err != nil {
			res.inconcl = err.Error()
			return
		}
		for _, rid := range t.Rids {
			want[rid] = f.Rel
		}
		cnt("files_placed", 1)
	}
	// both table-reference forms of the query API: database in the header, and db.table
	type qform struct {
		sql string
		hdr map[string]string
	}
	forms := []qform{
		{fmt.Sprintf("SELECT rid, count(*) AS c FROM %s GROUP BY rid", measurement), map[string]string{"x-arc-database": dbname}},
		{fmt.Sprintf("SELECT rid, count(*) AS c FROM %s.%s GROUP BY rid", dbname, measurement), nil},
	}
	// wire mirrors cmd/arc/main.go: the Manager is handed to the query handler. If the
	// Manager offers a migration-complete callback (it does not on the tree this check
	// was written against; see proposed-fix.patch) it is wired to the query handler's
	// cache invalidation the way main.go wires the compaction callback.
	wire := func(m *tiering.Manager) {
		w.n.Query.SetTieringManager(m)
		if s, ok := any(m).(interface{ SetOnMigrationComplete(func()) }); ok {
			s.SetOnMigrationComplete(w.n.Query.InvalidateCaches)
		}
	}
	defer w.n.Query.SetTieringManager(nil)
	warmup := func() {
		for _, qf := range forms {
			wr := w.n.QueryJSON(qf.sql, qf.hdr) // not judged: the property speaks about the state after the migration / recovery
			cnt("warmup_queries", 1)
			if wr.Success {
				cnt("warmup_query_rows", int64(len(wr.Rows)))
			} else {
				cnt("warmup_queries_failed", 1)
			}
		}
	}

	w.ctl.Begin(dbname, nil)
	p, err := w.start(metaFile, cs.Shape.Concurrent, cs.SameProcess)
	if err != nil {
		res.inconcl = "cannot start manager: " + err.Error()
		return
	}
	defer func() { p.stop() }()
	for _, f := range cs.Shape.Files {
		t := w.template(f.Class)
		err := p.mgr.GetMetadata().RecordFile(ctx, &tiering.FileMetadata{
			Path: dbname + "/" + f.Rel, Database: dbname, Measurement: strings.SplitN(f.Rel, "/", 2)[0],
			PartitionTime: partitionTime(f.Rel), Tier: tiering.TierHot, SizeBytes: t.Size, CreatedAt: time.Now().UTC(),
		})
		if err != nil {
			res.inconcl = "cannot register file: " + err.Error()
			return
		}
	}
	w.ctl.End()
	if cs.SameProcess {
		// one process from start to end: clients query before the cycle, too
		wire(p.mgr)
		warmup()
	}
	lap("setup")

	// 2. faulted cycles, each observed at the crash / failure instant; followed by a
	// restart unless the case keeps one process (SameProcess: no crash in the plan)
	for ri, r := range cs.Runs {
		if ri > 0 && !cs.SameProcess {
			p.stop()
			if p, err = w.start(metaFile, cs.Shape.Concurrent, false); err != nil {
				res.inconcl = "cannot restart manager: " + err.Error()
				return
			}
		}
		w.ctl.Begin(dbname, r.Faults)
		_ = p.mgr.RunMigrationCycle(ctx)
		log, frozen, fired := w.ctl.End()
		states, err := w.observe(p.db, dbname, cs.Shape)
		if err != nil {
			res.inconcl = "cannot observe state: " + err.Error()
			return
		}
		rep := runReport{Fired: fired, Frozen: frozen, States: states, Log: log}
		for _, f := range r.Faults {
			rep.Faults = append(rep.Faults, f.String())
			if f.Kind == "crash" {
				cnt("inject_crash", 1)
			} else {
				cnt("inject_fail", 1)
			}
		}
		res.runs = append(res.runs, rep)
		cnt("faulted_cycles", 1)
		cnt("calls_logged", int64(len(log)))
		switch {
		case len(r.Faults) == 0:
			res.goldenLog = log
			res.nontriv = true
		case fired > 0:
			res.nontriv = true
			cnt("faults_fired", int64(fired))
		default:
			cnt("faults_not_reached", 1)
		}
		switch {
		case frozen:
			cnt("crash_instants_observed", 1)
		case len(r.Faults) > 0:
			cnt("failure_instants_observed", 1)
		}
		cnt("file_states_checked_at_instant", int64(len(states)))
		judgeInstant(states, "at the crash / failure instant", func(clause, state string, d map[string]any) {
			d["cycle"] = ri
			d["crashed"] = frozen
			add(clause, state, d)
		})
		if cs.Wave == "reconcile" && ri == 1 && !frozen {
			// the reconcile-only cycle (scan disabled by the sticky listing failure, nothing
			// left to migrate) ran ReconcileOrphanedFiles to its end: "once ... orphan
			// reconciliation has finished, queries see each row exactly once" applies now,
			// before any later scan could re-register the orphan and migrate it again
			cnt("reconcile_only_cycles_judged", 1)
			for _, s := range states {
				if s.Meta == "cold" && s.Hot == "full" && s.Cold == "full" {
					add("file still complete in both tiers (rows visible twice) after the orphan reconciliation pass finished", s.class(), map[string]any{"file": s, "cycle": ri})
				}
			}
		}
	}
	lap("faulted")

	// 3. restart: ONE long-lived Manager shared by the migration cycles and the query
	// handler (as cmd/arc/main.go wires it; its tier cache therefore lives across the
	// recovery), query-side caches empty as in a fresh process. Clients query right
	// away (warm-up), then fault-free cycles (scan + migrate + ReconcileOrphanedFiles)
	// run until neither tier nor tier_files changes any more.
	if !cs.SameProcess {
		p.stop()
		w.n.Query.InvalidateCaches()
		if p, err = w.start(metaFile, cs.Shape.Concurrent, true); err != nil {
			res.inconcl = "cannot restart manager: " + err.Error()
			return
		}
		wire(p.mgr)
		warmup()
	}
	prev := ""
	converged := false
	for round := 1; round <= maxRounds; round++ {
		w.ctl.Begin(dbname, nil)
		_ = p.mgr.RunMigrationCycle(ctx)
		log, _, _ := w.ctl.End()
		res.recovery = append(res.recovery, log)
		tiers, terr := metaTiers(p.db, dbname)
		if terr != nil {
			res.inconcl = "cannot read tier_files: " + terr.Error()
			return
		}
		tj, _ := json.Marshal(tiers)
		snap := treeDigest(w.n.Root, dbname) + "\n--\n" + treeDigest(w.coldDir, dbname) + "\n--\n" + string(tj)
		res.rounds = round
		cnt("recovery_cycles", 1)
		for _, e := range log {
			if e.Store == "hot" && e.Op == "Delete" && e.Outcome == "ok" {
				cnt("recovery_hot_deletes", 1)
			}
			if e.Op == "tier:cold>hot" {
				cnt("recovery_scan_reregistrations", 1)
			}
			if e.Op == "tier:hot>cold" {
				cnt("recovery_migrations", 1)
			}
		}
		if snap == prev {
			converged = true
			break
		}
		prev = snap
	}
	if !converged {
		res.inconcl = fmt.Sprintf("%s: state still changing after %d fault-free cycles", cs.label(), maxRounds)
		return
	}
	lap("recovery")

	// 4. quiescence: file level, then the real query path (same Manager)
	final, err := w.observe(p.db, dbname, cs.Shape)
	if err != nil {
		res.inconcl = "cannot observe final state: " + err.Error()
		return
	}
	res.final = final
	stateOf := map[string]FileState{}
	for _, s := range final {
		stateOf[s.Rel] = s
		cnt("file_states_checked_at_quiescence", 1)
		switch {
		case s.Meta == "cold":
			cnt("files_cold_at_quiescence", 1)
		case s.Meta == "hot":
			cnt("files_hot_at_quiescence", 1)
		}
	}
	judgeInstant(final, "after migration and reconciliation finished", add)

	// ask runs both query forms and classifies every expected rid
	type verdict struct {
		sql           string
		hdr           map[string]string
		failed        bool
		status        int
		errText       string
		missing, dup  map[string][]int64
		alien, broken string
	}
	ask := func() verdict {
		v := verdict{missing: map[string][]int64{}, dup: map[string][]int64{}}
		for _, qf := range forms {
			v.sql, v.hdr = qf.sql, qf.hdr
			qr := w.n.QueryJSON(qf.sql, qf.hdr)
			cnt("queries", 1)
			if !qr.Success {
				v.failed, v.status, v.errText = true, qr.Status, qr.Error
				return v
			}
			got := map[int64]int64{}
			for _, row := range qr.Rows {
				if len(row) != 2 {
					v.broken = "unexpected query result shape"
					return v
				}
				var rid, c int64
				fmt.Sscan(fmt.Sprint(row[0]), &rid)
				fmt.Sscan(fmt.Sprint(row[1]), &c)
				got[rid] += c
			}
			cnt("rows_compared", int64(len(want)))
			for rid := range got {
				if _, ok := want[rid]; !ok {
					v.alien = fmt.Sprintf("query returned rid %d the case never wrote", rid)
					return v
				}
			}
			for rid, rel := range want {
				switch c := got[rid]; {
				case c == 0:
					v.missing[rel] = append(v.missing[rel], rid)
				case c > 1:
					v.dup[rel] = append(v.dup[rel], rid)
				}
			}
			if len(v.missing)+len(v.dup) > 0 {
				return v
			}
		}
		return v
	}
	bad := func(v verdict) bool { return v.failed || len(v.missing)+len(v.dup) > 0 }
	summarize := func(v verdict) map[string]any {
		d := map[string]any{"sql": v.sql, "header": v.hdr, "final_states": final}
		if v.failed {
			d["status"], d["error"] = v.status, v.errText
		}
		nz, nd := 0, 0
		for _, l := range v.missing {
			nz += len(l)
		}
		for _, l := range v.dup {
			nd += len(l)
		}
		d["rows_visible_zero_times"], d["rows_visible_twice"] = nz, nd
		return d
	}
	allStates := func() string {
		var l []string
		seen := map[string]bool{}
		for _, s := range final {
			if !seen[s.class()] {
				seen[s.class()] = true
				l = append(l, s.class())
			}
		}
		sort.Strings(l)
		return strings.Join(l, " | ")
	}
	v := ask()
	if v.broken != "" || v.alien != "" {
		res.inconcl = v.broken + v.alien
		return
	}
	if bad(v) {
		// diagnostic re-observation (classification only, the first answer already
		// refutes the property): drop the query handler's own caches and ask again
		w.n.Query.InvalidateCaches()
		cnt("requeries_after_cache_invalidation", 1)
		v2 := ask()
		if !bad(v2) && v2.broken == "" && v2.alien == "" {
			d := summarize(v)
			d["after_invalidate_caches"] = "every rid exactly once"
			add("queries do not see each row exactly once after the migration finished until QueryHandler.InvalidateCaches() / the 60 s SQL-transform cache TTL: the cached SQL rewrite still names the tiers the measurement had before the migration", "any", d)
			return
		}
	}
	if v.failed {
		add("rows unreadable after migration and reconciliation finished: multi-tier query fails", allStates(), summarize(v))
		return
	}
	reportRows := func(clause string, m map[string][]int64) {
		rels := make([]string, 0, len(m))
		for rel := range m {
			rels = append(rels, rel)
		}
		sort.Strings(rels)
		for _, rel := range rels {
			ids := m[rel]
			sort.Slice(ids, func(i, j int) bool { return ids[i] < ids[j] })
			ex := ids
			if len(ex) > 5 {
				ex = ex[:5]
			}
			add(clause, stateOf[rel].class(), map[string]any{"sql": v.sql, "file": stateOf[rel], "rows_affected": len(ids),
				"example_rids": ex, "final_states": final})
		}
	}
	reportRows("rows visible zero times after migration and reconciliation finished", v.missing)
	reportRows("rows visible twice after migration and reconciliation finished", v.dup)
	return
}

// ── enumeration ─────────────────────────────────────────────────────────

func isStream(op string) bool { return op == "ReadTo" || op == "WriteReader" }

// singleFaults derives one case per (call of the fault-free cycle) x (kind, phase).
func singleFaults(sh Shape, log []Event, sizeOf func(rel string) int64, rng *rand.Rand, thorough bool) []RunSpec {
	var out []RunSpec
	one := func(f Fault) { out = append(out, RunSpec{Faults: []Fault{f}}) }
	for _, e := range log {
		for _, kind := range []string{"crash", "fail"} {
			one(Fault{Kind: kind, At: e.Point, Phase: "before"})
			switch {
			case e.Store == "meta":
				if kind == "crash" {
					one(Fault{Kind: kind, At: e.Point, Phase: "late"})
				}
			case isStream(e.Op):
				sz := sizeOf(e.Key)
				cuts := map[int64]bool{}
				if sz > 1 {
					cuts[1] = true
					cuts[sz-1] = true
				}
				if sz > 4 {
					cuts[2+rng.Int64N(sz-3)] = true
				}
				if sz > 40000 {
					cuts[32768] = true // one io.Copy buffer
				}
				if thorough && sz > 4 {
					for i := 0; i < 4; i++ {
						cuts[2+rng.Int64N(sz-3)] = true
					}
					if sz > 70000 {
						cuts[32769] = true
						cuts[65536] = true
					}
				}
				cl := make([]int64, 0, len(cuts))
				for c := range cuts {
					cl = append(cl, c)
				}
				sort.Slice(cl, func(i, j int) bool { return cl[i] < cl[j] })
				for _, c := range cl {
					one(Fault{Kind: kind, At: e.Point, Phase: "mid", Cut: c})
				}
				one(Fault{Kind: kind, At: e.Point, Phase: "late"})
				if e.Op == "WriteReader" {
					one(Fault{Kind: kind, At: e.Point, Phase: "commit"})
				}
			case e.Mut:
				one(Fault{Kind: kind, At: e.Point, Phase: "late"})
			}
		}
	}
	return out
}

func pointSet(log []Event) map[Point]bool {
	m := map[Point]bool{}
	for _, e := range log {
		m[e.Point] = true
	}
	return m
}

// ── check body ──────────────────────────────────────────────────────────

func buildShapes(rng *rand.Rand, thorough bool) []Shape {
	day := func() (int, int) { return 1 + rng.IntN(12), 1 + rng.IntN(28) }
	rel := func(mo, d, h int, name string) string {
		return fmt.Sprintf("%s/2020/%02d/%02d/%02d/%s", measurement, mo, d, h, name)
	}
	var shapes []Shape
	for _, class := range []string{"tiny", "sub32k", "100k", "1m", "multi"} {
		mo, d := day()
		rmo, rd := day()
		for rmo == mo && rd == d {
			rmo, rd = day()
		}
		shapes = append(shapes, Shape{Name: "one-" + class, Concurrent: 1, Files: []FileSpec{
			{Class: class, Rel: rel(mo, d, rng.IntN(24), measurement+"_20200101_"+class+"_daily.parquet")},
			{Class: "resident", Rel: rel(rmo, rd, rng.IntN(24), measurement+"_resident.parquet"), Resident: true},
		}})
	}
	{ // nothing else in the database: the whole hot tree is removed by the directory clean-up
		mo, d := day()
		shapes = append(shapes, Shape{Name: "one-tiny-alone", Concurrent: 1, Files: []FileSpec{
			{Class: "tiny2", Rel: rel(mo, d, rng.IntN(24), measurement+"_alone_daily.parquet")},
		}})
	}
	{ // a zero-byte object in a measurement of its own ("z", never queried), next to normal data
		mo, d := day()
		rmo, rd := day()
		shapes = append(shapes, Shape{Name: "one-empty", Concurrent: 1, Files: []FileSpec{
			{Class: "empty", Rel: fmt.Sprintf("z/2020/%02d/%02d/%02d/z_empty_daily.parquet", mo, d, rng.IntN(24))},
			{Class: "resident2", Rel: rel(rmo, rd, rng.IntN(24), measurement+"_resident.parquet"), Resident: true},
		}})
	}
	batch := func(name string, classes []string, concurrent int) Shape {
		mo, d := day()
		h := rng.IntN(24)
		sh := Shape{Name: name, Concurrent: concurrent}
		for i, class := range classes {
			switch {
			case i < 2: // two files in the same hour directory, next to a resident file
				sh.Files = append(sh.Files, FileSpec{Class: class, Rel: rel(mo, d, h, fmt.Sprintf("%s_b%d_daily.parquet", measurement, i))})
			default:
				mo2, d2 := day()
				sh.Files = append(sh.Files, FileSpec{Class: class, Rel: rel(mo2, d2, rng.IntN(24), fmt.Sprintf("%s_b%d_daily.parquet", measurement, i))})
			}
		}
		sh.Files = append(sh.Files, FileSpec{Class: "resident", Rel: rel(mo, d, h, measurement+"_resident.parquet"), Resident: true})
		sort.SliceStable(sh.Files, func(i, j int) bool { return sh.Files[i].Rel < sh.Files[j].Rel })
		return sh
	}
	shapes = append(shapes, batch("batch3", []string{"tiny2", "100k", "small2"}, 1))
	if thorough {
		shapes = append(shapes, batch("batch5", []string{"tiny", "1m", "small2", "sub32k", "tiny2"}, 1))
		shapes = append(shapes, batch("batch4-concurrent", []string{"tiny2", "100k", "small2", "1m"}, 4))
	}
	return shapes
}

func checkC12(c *vlib.Ctx) {
	c.Rule("a case = initial hot tier state (1-5 arc-written Parquet files of 5 size classes, unique rid per row, plus a never-migrated resident file in the same measurement) x fault plan; the fault plan enumerates EVERY call the fault-free migration cycle makes on the hot backend, the cold backend and the tier metadata (crash before / mid-stream / after it; single failure before / mid-stream / reported-after-applied), plus second faults on calls that only appear on error paths; non-trivial = an armed fault fired (or the fault-free cycle migrated the files); distinct by shape + fault plan")
	c.Assume("crash model: from the crash point on every call on both storage backends and every tiering metadata write fails; a call in flight completes or not as a whole except streaming calls, which are also cut after N bytes. Lost page-cache / torn SQLite pages are not modelled")
	c.Assume("cold tier is a LocalBackend (write = .part + rename); S3/Azure multipart semantics are out of reach offline")
	c.Assume("original Parquet bytes are produced by arc's real ingest and copied under *_daily.parquet names (the migrator only moves daily-compacted files); the compactor itself is not run")
	thorough := !c.Quick()

	tpl, why, err := buildTemplates(c.Rand("templates"))
	if err != nil {
		panic(err)
	}
	if why != "" {
		c.Inconclusive(why)
		return
	}
	sizes := map[string]int64{}
	for class, l := range tpl {
		for _, t := range l {
			c.Count("template_files", 1)
			c.Count("template_rows", int64(t.Rows))
			if t.Size > sizes[class] {
				sizes[class] = t.Size
			}
		}
	}
	kib := map[string]int64{}
	for class, n := range sizes {
		kib[class] = (n + 512) / 1024
	}
	c.Extra("template_sizes_kib", kib) // arc's writer is not byte-deterministic (a few bytes vary between runs)

	nw := 12
	workers := make([]*worker, nw)
	for i := range workers {
		w, err := newWorker(i, tpl)
		if err != nil {
			panic(err)
		}
		workers[i] = w
		defer w.close()
	}

	// Findings are grouped by (broken clause, file state): one signature per group,
	// naming the simplest fault plan that produced it (no fault < one fault < more;
	// ties broken alphabetically), so that one root cause does not fan out into one
	// signature per injected step. All plans that hit the group are listed in detail.
	type pend struct {
		key, step string
		rank, idx int
		detail    map[string]any
	}
	groups := map[string][]pend{}
	report := func(rs []result) {
		for _, r := range rs {
			c.Eval()
			for k, v := range r.counters {
				c.Count(k, v)
			}
			c.Count("recovery_rounds_total", int64(r.rounds))
			if r.inconcl != "" {
				c.Inconclusive(r.inconcl)
			}
			if r.nontriv {
				c.Nontrivial(r.cs.label())
			}
			for _, f := range r.findings {
				key := f.Clause + " [" + f.State + "]"
				rank := 0
				for _, run := range r.cs.Runs {
					rank += len(run.Faults)
				}
				f.Detail["case"] = r.cs
				f.Detail["label"] = r.cs.label()
				f.Detail["cycles"] = r.runs
				f.Detail["recovery_rounds"] = r.rounds
				var logs [][]string
				for _, rr := range r.runs {
					logs = append(logs, renderLog(rr.Log))
				}
				f.Detail["faulted_cycle_logs"] = logs
				if len(r.recovery) > 0 {
					f.Detail["first_recovery_cycle_log"] = renderLog(r.recovery[0])
				}
				groups[key] = append(groups[key], pend{key: key, step: r.cs.stepText(), rank: rank, idx: r.idx, detail: f.Detail})
			}
		}
	}
	emit := func() {
		keys := make([]string, 0, len(groups))
		for k := range groups {
			keys = append(keys, k)
		}
		sort.Strings(keys)
		for _, k := range keys {
			g := groups[k]
			sort.Slice(g, func(i, j int) bool {
				if g[i].rank != g[j].rank {
					return g[i].rank < g[j].rank
				}
				if g[i].step != g[j].step {
					return g[i].step < g[j].step
				}
				return g[i].idx < g[j].idx
			})
			plans := map[string]int{}
			for _, p := range g {
				plans[p.step]++
			}
			g[0].detail["all_fault_plans_with_this_outcome"] = plans
			c.Count("violating_cases", int64(len(g)))
			c.Violation(fmt.Sprintf("%s after %s", k, g[0].step), g[0].detail)
		}
	}
	runWave := func(cases []Case) []result {
		out := make([]result, len(cases))
		ch := make(chan int)
		var wg sync.WaitGroup
		for _, w := range workers {
			wg.Add(1)
			go func(w *worker) {
				defer wg.Done()
				for i := range ch {
					out[i] = w.run(cases[i])
				}
			}(w)
		}
		for i := range cases {
			ch <- i
		}
		close(ch)
		wg.Wait()
		return out
	}

	// replay: one case
	if c.Replay != "" {
		var d struct {
			Case Case `json:"case"`
		}
		if err := vlib.LoadReplay(c.Replay, &d); err != nil {
			panic(err)
		}
		if d.Case.Seed != c.Seed {
			fmt.Printf("note: replay was recorded with VERIF_SEED=%d (now %d): template bytes differ, the fault plan is the same\n", d.Case.Seed, c.Seed)
		}
		rs := runWave([]Case{d.Case})
		r := rs[0]
		fmt.Println("case:", r.cs.label())
		for i, rr := range r.runs {
			fmt.Printf("cycle %d: fired=%d crashed=%v\n", i, rr.Fired, rr.Frozen)
			for _, l := range renderLog(rr.Log) {
				fmt.Println("   ", l)
			}
			for _, s := range rr.States {
				fmt.Printf("    state %s: %s %s\n", s.Rel, s.class(), s.Note)
			}
		}
		fmt.Printf("recovery rounds: %d\n", r.rounds)
		for _, s := range r.final {
			fmt.Printf("    final %s: %s %s\n", s.Rel, s.class(), s.Note)
		}
		for _, f := range r.findings {
			fmt.Printf("FINDING %s [%s]\n", f.Clause, f.State)
		}
		report(rs)
		emit()
		c.Floor(1)
		return
	}

	shapes := buildShapes(c.Rand("shapes"), thorough)
	sizeOf := func(sh Shape) func(string) int64 {
		return func(rel string) int64 {
			for _, f := range sh.Files {
				if f.Rel == rel {
					return sizes[f.Class]
				}
			}
			return 0
		}
	}
	idx := 0
	mk := func(wave string, sh Shape, runs []RunSpec) Case {
		idx++
		return Case{Idx: idx, Wave: wave, Shape: sh, Runs: runs, Seed: c.Seed}
	}

	// wave 0: fault-free cycle per shape (the call log is the enumeration domain)
	var w0 []Case
	for _, sh := range shapes {
		w0 = append(w0, mk("fault-free", sh, []RunSpec{{}}))
		live := mk("fault-free", sh, []RunSpec{{}})
		live.SameProcess = true
		w0 = append(w0, live)
	}
	r0 := runWave(w0)
	report(r0)
	golden := map[string]map[Point]bool{}
	var w1 []Case
	cutRng := c.Rand("cuts")
	for _, r := range r0 {
		if r.inconcl != "" || r.cs.SameProcess {
			continue
		}
		golden[r.cs.Shape.Name] = pointSet(r.goldenLog)
		migrated := 0
		for _, e := range r.goldenLog {
			c.Count("enumerated_calls_"+stepOf(e.Point), 1)
			if e.Op == "tier:hot>cold" {
				migrated++
			}
		}
		if migrated == 0 {
			c.Inconclusive("fault-free cycle of shape " + r.cs.Shape.Name + " migrated nothing")
			continue
		}
		for _, rs := range singleFaults(r.cs.Shape, r.goldenLog, sizeOf(r.cs.Shape), cutRng, thorough) {
			w1 = append(w1, mk("single", r.cs.Shape, []RunSpec{rs}))
			if f := rs.Faults[0]; f.Kind == "fail" && f.At.Store != "cold" {
				// the process survives a failed step: same Manager, same query-side caches
				live := mk("single", r.cs.Shape, []RunSpec{rs})
				live.SameProcess = true
				w1 = append(w1, live)
			}
		}
	}
	c.Count("cases_single_fault", int64(len(w1)))
	r1 := runWave(w1)
	report(r1)

	// wave 2: (a) second faults on calls that appear only on error paths (rollback
	// delete...), (b) crash states where the metadata already says cold but the hot
	// copy still exists, restarted with a failing scan so that ReconcileOrphanedFiles
	// (not scan + re-migration) has to clean up, (c) thorough: a second crash during
	// the first recovery cycle.
	var w2 []Case
	orphanSeen := map[string]bool{}
	for _, r := range r1 {
		if r.inconcl != "" || len(r.runs) == 0 || r.cs.SameProcess {
			continue
		}
		f0 := r.cs.Runs[0].Faults[0]
		g := golden[r.cs.Shape.Name]
		if f0.Kind == "fail" {
			seen := map[Point]bool{}
			for _, e := range r.runs[0].Log {
				if g[e.Point] || seen[e.Point] || e.Outcome == "injected" || e.Outcome == "dead" {
					continue
				}
				seen[e.Point] = true
				c.Count("enumerated_error_path_calls_"+stepOf(e.Point), 1)
				for _, kind := range []string{"fail", "crash"} {
					w2 = append(w2, mk("double", r.cs.Shape, []RunSpec{{Faults: []Fault{f0, {Kind: kind, At: e.Point, Phase: "before"}}}}))
					if e.Mut && e.Store != "meta" {
						w2 = append(w2, mk("double", r.cs.Shape, []RunSpec{{Faults: []Fault{f0, {Kind: kind, At: e.Point, Phase: "late"}}}}))
					}
				}
			}
		}
		orphan := false
		for _, s := range r.runs[0].States {
			if s.Meta == "cold" && s.Hot != "absent" {
				orphan = true
			}
		}
		sj, _ := json.Marshal(r.runs[0].States)
		okey := r.cs.Shape.Name + string(sj)
		if orphan && !orphanSeen[okey] {
			orphanSeen[okey] = true
			w2 = append(w2, mk("reconcile", r.cs.Shape, []RunSpec{r.cs.Runs[0],
				{Faults: []Fault{{Kind: "fail", Sticky: true, At: Point{Store: "hot", Op: "ListObjects"}, Phase: "before"}}}}))
		}
		if thorough && f0.Kind == "crash" && len(r.recovery) > 0 {
			seen := map[Point]bool{}
			for _, e := range r.recovery[0] {
				if seen[e.Point] || !(e.Mut || isStream(e.Op)) {
					continue
				}
				seen[e.Point] = true
				w2 = append(w2, mk("double-crash", r.cs.Shape, []RunSpec{r.cs.Runs[0], {Faults: []Fault{{Kind: "crash", At: e.Point, Phase: "before"}}}}))
				if e.Op == "ReadTo" { // the recovery cycle's cold side is not wrapped: derive its copy-write point
					cw := Point{Store: "cold", Op: "WriteReader", Key: e.Key, Nth: e.Nth}
					w2 = append(w2, mk("double-crash", r.cs.Shape, []RunSpec{r.cs.Runs[0], {Faults: []Fault{{Kind: "crash", At: cw, Phase: "before"}}}}))
					w2 = append(w2, mk("double-crash", r.cs.Shape, []RunSpec{r.cs.Runs[0], {Faults: []Fault{{Kind: "crash", At: cw, Phase: "mid", Cut: 1 + sizeOf(r.cs.Shape)(e.Key)/2}}}}))
				}
			}
		}
	}
	c.Count("cases_second_level", int64(len(w2)))
	r2 := runWave(w2)
	report(r2)

	// wave 3: crash inside the reconcile-only recovery cycle
	var w3 []Case
	for _, r := range r2 {
		if r.cs.Wave != "reconcile" || r.inconcl != "" || len(r.runs) < 2 {
			continue
		}
		seen := map[Point]bool{}
		for _, e := range r.runs[1].Log {
			if seen[e.Point] || e.Outcome == "injected" || !(e.Mut || e.Op == "Exists") {
				continue
			}
			seen[e.Point] = true
			sticky := r.cs.Runs[1].Faults[0]
			for _, ph := range []string{"before", "late"} {
				if ph == "late" && !e.Mut {
					continue
				}
				w3 = append(w3, mk("reconcile-crash", r.cs.Shape, []RunSpec{r.cs.Runs[0],
					{Faults: []Fault{sticky, {Kind: "crash", At: e.Point, Phase: ph}}}}))
			}
		}
	}
	c.Count("cases_reconcile_crash", int64(len(w3)))
	report(runWave(w3))

	c.Sample(map[string]any{"shapes": shapes})
	ns := 0
	for _, r := range r1 {
		if len(r.runs) > 0 && r.runs[0].Fired > 0 && r.idx%61 == 0 && ns < 6 {
			ns++
			c.Sample(map[string]any{"case": r.cs.label(), "states_at_instant": r.runs[0].States, "recovery_rounds": r.rounds, "final": r.final})
		}
	}
	emit()
	c.Floor(c.N(200, 400))
}

func renderLog(log []Event) []string {
	out := make([]string, 0, len(log))
	for i, e := range log {
		s := fmt.Sprintf("%3d %s %s", i, e.Point.id(), e.Outcome)
		if e.Err != "" {
			s += " (" + e.Err + ")"
		}
		out = append(out, s)
	}
	return out
}
