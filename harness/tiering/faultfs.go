package main

// faultfs for the tiering area: one controller (Ctl) shared by the hot backend
// wrapper, the cold backend wrapper and the SQLite metadata hook (metahook.go).
// Every call is logged as an Event addressed by a Point (store, op, key relative
// to the case database, n-th occurrence). Armed faults either FAIL one call
// (the code under test keeps running) or CRASH there: the call fails and from
// then on every call on both backends and every metadata write fails too, so
// whatever is on disk / in SQLite when the cycle returns is the state at the
// crash instant.
//
// Copied in spirit from harness/backup/faultfs.go; it forwards the same optional
// interfaces (ObjectLister is type-asserted by Manager.ScanAndRegisterFiles,
// DirectoryRemover by Migrator.CleanupEmptyDirectories).

import (
	"context"
	"errors"
	"fmt"
	"io"
	"strings"
	"sync"

	"github.com/basekick-labs/arc/internal/storage"
)

// Point addresses one call of a run.
type Point struct {
	Store string `json:"store"` // hot | cold | meta
	Op    string `json:"op"`
	Key   string `json:"key"` // storage path below the case database ("." = the database dir, "" = root)
	Nth   int    `json:"nth"` // 0-based occurrence of (store, op, key) in this run
}

func (p Point) id() string { return fmt.Sprintf("%s.%s[%s]#%d", p.Store, p.Op, p.Key, p.Nth) }

// Fault is one armed injection.
//
//	Kind  "fail"  the addressed call returns an error, everything else keeps working
//	      "crash" the addressed call is the crash point: it fails (or is cut / completes,
//	              see Phase) and every later call on hot, cold and metadata fails
//	Phase "before" nothing of the call is applied
//	      "mid"    streaming calls only: Cut bytes pass, then the stream breaks
//	               (LocalBackend leaves "<path>.part" behind)
//	      "late"   the call is applied completely, then reported as failed (fail) /
//	               then the process dies (crash)
//	      "commit" WriteReader only: the WHOLE byte stream is consumed (the source side
//	               finishes without an error), then the call fails and NOTHING is left
//	               at the destination (object-store PutObject / CompleteMultipartUpload
//	               answering 5xx after the body was uploaded; local close/rename failing)
//	Sticky: every call of (Store, Op) fails "before", whatever key/occurrence
//	        (used to make the pre-migration scan fail during a whole cycle)
type Fault struct {
	Kind   string `json:"kind"`
	At     Point  `json:"at"`
	Phase  string `json:"phase"`
	Cut    int64  `json:"cut,omitempty"`
	Sticky bool   `json:"sticky,omitempty"`
}

func (f Fault) String() string {
	if f.Sticky {
		return fmt.Sprintf("%s-all %s.%s", f.Kind, f.At.Store, f.At.Op)
	}
	s := fmt.Sprintf("%s/%s@%s", f.Kind, f.Phase, f.At.id())
	if f.Phase == "mid" {
		s += fmt.Sprintf("+%dB", f.Cut)
	}
	return s
}

// Event is one logged call.
type Event struct {
	Point
	Mut     bool   `json:"mut,omitempty"`
	Outcome string `json:"outcome"` // ok | err | injected | dead
	Err     string `json:"err,omitempty"`
}

var (
	errInjected = errors.New("faultfs: injected failure")
	errDead     = errors.New("faultfs: process is dead (after crash point)")
)

const (
	actPass = iota
	actDead
	actBefore
	actMid
	actLate
	actCommit
)

type decision struct {
	act   int
	idx   int
	crash bool
	cut   int64
}

// Ctl is the shared controller.
type Ctl struct {
	mu     sync.Mutex
	db     string
	occ    map[string]int
	log    []Event
	faults []Fault
	fired  []bool
	frozen bool
	nFired int
}

func newCtl() *Ctl { return &Ctl{occ: map[string]int{}} }

// Begin starts a run: clears the log and the crash state and arms faults.
func (c *Ctl) Begin(db string, faults []Fault) {
	c.mu.Lock()
	c.db, c.occ, c.log, c.frozen, c.nFired = db, map[string]int{}, nil, false, 0
	c.faults = append([]Fault(nil), faults...)
	c.fired = make([]bool, len(faults))
	c.mu.Unlock()
}

// End returns the log of the run, whether the crash point was reached and how many
// armed faults fired. The crash state stays until the next Begin.
func (c *Ctl) End() (log []Event, frozen bool, fired int) {
	c.mu.Lock()
	defer c.mu.Unlock()
	c.faults, c.fired = nil, nil
	return append([]Event(nil), c.log...), c.frozen, c.nFired
}

func (c *Ctl) rel(key string) string {
	if c.db == "" {
		return key
	}
	if key == c.db || key == c.db+"/" {
		return "."
	}
	if strings.HasPrefix(key, c.db+"/") {
		return key[len(c.db)+1:]
	}
	return key
}

func (c *Ctl) enter(store, op, rawKey string, mut bool) decision {
	c.mu.Lock()
	defer c.mu.Unlock()
	key := c.rel(rawKey)
	ok := store + "\x00" + op + "\x00" + key
	p := Point{Store: store, Op: op, Key: key, Nth: c.occ[ok]}
	c.occ[ok]++
	c.log = append(c.log, Event{Point: p, Mut: mut, Outcome: "ok"})
	d := decision{act: actPass, idx: len(c.log) - 1}
	if c.frozen {
		c.log[d.idx].Outcome = "dead"
		d.act = actDead
		return d
	}
	for i, f := range c.faults {
		if f.Sticky {
			if f.At.Store == store && f.At.Op == op {
				c.nFired++
				c.log[d.idx].Outcome = "injected"
				d.act = actBefore
				return d
			}
			continue
		}
		if c.fired[i] || f.At != p {
			continue
		}
		c.fired[i] = true
		c.nFired++
		c.log[d.idx].Outcome = "injected"
		d.crash = f.Kind == "crash"
		d.cut = f.Cut
		switch f.Phase {
		case "mid":
			d.act = actMid
		case "late":
			d.act = actLate
		case "commit":
			d.act = actCommit
		default:
			d.act = actBefore
			if d.crash {
				c.frozen = true
			}
		}
		return d
	}
	return d
}

// after is called when a mid/late injected call has done its (partial) work.
func (c *Ctl) after(d decision) {
	if d.crash {
		c.mu.Lock()
		c.frozen = true
		c.mu.Unlock()
	}
}

func (c *Ctl) done(d decision, err error) {
	if err == nil {
		return
	}
	c.mu.Lock()
	if c.log[d.idx].Outcome == "ok" {
		c.log[d.idx].Outcome = "err"
	}
	c.log[d.idx].Err = err.Error()
	c.mu.Unlock()
}

func injErr(d decision, store, op, key string) error {
	if d.act == actDead {
		return fmt.Errorf("%w: %s %s on %s", errDead, op, key, store)
	}
	return fmt.Errorf("%w: %s %s on %s", errInjected, op, key, store)
}

// FS wraps one backend.
type FS struct {
	name  string
	inner storage.Backend
	ctl   *Ctl
}

func newFS(name string, inner storage.Backend, ctl *Ctl) *FS {
	return &FS{name: name, inner: inner, ctl: ctl}
}

// simple runs a non-streaming call under the controller.
func (f *FS) simple(op, key string, mut bool, run func() error) error {
	d := f.ctl.enter(f.name, op, key, mut)
	switch d.act {
	case actDead, actBefore:
		return injErr(d, f.name, op, key)
	case actMid, actLate, actCommit:
		err := run()
		f.ctl.after(d)
		if err != nil {
			return err
		}
		return injErr(d, f.name, op, key)
	}
	err := run()
	f.ctl.done(d, err)
	return err
}

// ── storage.Backend ─────────────────────────────────────────────────────

func (f *FS) Write(ctx context.Context, path string, data []byte) error {
	return f.simple("Write", path, true, func() error { return f.inner.Write(ctx, path, data) })
}

// cutReader delivers n bytes and then fails.
type cutReader struct {
	r   io.Reader
	n   int64
	err error
}

func (c *cutReader) Read(p []byte) (int, error) {
	if c.n <= 0 {
		return 0, c.err
	}
	if int64(len(p)) > c.n {
		p = p[:c.n]
	}
	n, err := c.r.Read(p)
	c.n -= int64(n)
	if err == io.EOF {
		err = c.err // the source was shorter than the cut: still a broken stream
	}
	return n, err
}

// cutWriter passes n bytes and then fails.
type cutWriter struct {
	w   io.Writer
	n   int64
	err error
}

func (c *cutWriter) Write(p []byte) (int, error) {
	if c.n <= 0 {
		return 0, c.err
	}
	if int64(len(p)) > c.n {
		n, err := c.w.Write(p[:c.n])
		c.n -= int64(n)
		if err == nil {
			err = c.err
		}
		return n, err
	}
	n, err := c.w.Write(p)
	c.n -= int64(n)
	return n, err
}

func (f *FS) WriteReader(ctx context.Context, path string, reader io.Reader, size int64) error {
	d := f.ctl.enter(f.name, "WriteReader", path, true)
	switch d.act {
	case actDead, actBefore:
		return injErr(d, f.name, "WriteReader", path)
	case actMid:
		ie := injErr(d, f.name, "WriteReader", path)
		err := f.inner.WriteReader(ctx, path, &cutReader{r: reader, n: d.cut, err: ie}, size)
		f.ctl.after(d)
		if err == nil {
			err = ie
		}
		return err
	case actLate:
		err := f.inner.WriteReader(ctx, path, reader, size)
		f.ctl.after(d)
		if err != nil {
			return err
		}
		return injErr(d, f.name, "WriteReader", path)
	case actCommit:
		// drain the stream to its clean end, store nothing, fail
		_, derr := io.Copy(io.Discard, reader)
		f.ctl.after(d)
		if derr != nil {
			return derr
		}
		return injErr(d, f.name, "WriteReader", path)
	}
	err := f.inner.WriteReader(ctx, path, reader, size)
	f.ctl.done(d, err)
	return err
}

func (f *FS) Read(ctx context.Context, path string) ([]byte, error) {
	var b []byte
	err := f.simple("Read", path, false, func() error {
		var e error
		b, e = f.inner.Read(ctx, path)
		return e
	})
	if err != nil {
		return nil, err
	}
	return b, nil
}

func (f *FS) ReadTo(ctx context.Context, path string, w io.Writer) error {
	d := f.ctl.enter(f.name, "ReadTo", path, false)
	switch d.act {
	case actDead, actBefore:
		return injErr(d, f.name, "ReadTo", path)
	case actMid:
		ie := injErr(d, f.name, "ReadTo", path)
		err := f.inner.ReadTo(ctx, path, &cutWriter{w: w, n: d.cut, err: ie})
		f.ctl.after(d)
		if err == nil {
			err = ie
		}
		return err
	case actLate, actCommit:
		err := f.inner.ReadTo(ctx, path, w)
		f.ctl.after(d)
		if err != nil {
			return err
		}
		return injErr(d, f.name, "ReadTo", path)
	}
	err := f.inner.ReadTo(ctx, path, w)
	f.ctl.done(d, err)
	return err
}

func (f *FS) ReadToAt(ctx context.Context, path string, w io.Writer, off int64) error {
	return f.simple("ReadToAt", path, false, func() error { return f.inner.ReadToAt(ctx, path, w, off) })
}

func (f *FS) StatFile(ctx context.Context, path string) (int64, error) {
	var n int64
	err := f.simple("StatFile", path, false, func() error {
		var e error
		n, e = f.inner.StatFile(ctx, path)
		return e
	})
	return n, err
}

func (f *FS) List(ctx context.Context, prefix string) ([]string, error) {
	var l []string
	err := f.simple("List", prefix, false, func() error {
		var e error
		l, e = f.inner.List(ctx, prefix)
		return e
	})
	return l, err
}

func (f *FS) Delete(ctx context.Context, path string) error {
	return f.simple("Delete", path, true, func() error { return f.inner.Delete(ctx, path) })
}

func (f *FS) Exists(ctx context.Context, path string) (bool, error) {
	var ok bool
	err := f.simple("Exists", path, false, func() error {
		var e error
		ok, e = f.inner.Exists(ctx, path)
		return e
	})
	return ok, err
}

func (f *FS) Close() error       { return nil } // the harness owns and closes the inner backend
func (f *FS) Type() string       { return f.inner.Type() }
func (f *FS) ConfigJSON() string { return f.inner.ConfigJSON() }

// ── optional interfaces (all implemented by LocalBackend) ───────────────

var errUnsupported = errors.New("faultfs: inner backend does not implement this optional interface")

func (f *FS) ListObjects(ctx context.Context, prefix string) ([]storage.ObjectInfo, error) {
	ol, ok := f.inner.(storage.ObjectLister)
	if !ok {
		return nil, errUnsupported
	}
	var l []storage.ObjectInfo
	err := f.simple("ListObjects", prefix, false, func() error {
		var e error
		l, e = ol.ListObjects(ctx, prefix)
		return e
	})
	return l, err
}

func (f *FS) ListDirectories(ctx context.Context, prefix string) ([]string, error) {
	dl, ok := f.inner.(storage.DirectoryLister)
	if !ok {
		return nil, errUnsupported
	}
	var l []string
	err := f.simple("ListDirectories", prefix, false, func() error {
		var e error
		l, e = dl.ListDirectories(ctx, prefix)
		return e
	})
	return l, err
}

func (f *FS) DeleteBatch(ctx context.Context, paths []string) error {
	bd, ok := f.inner.(storage.BatchDeleter)
	if !ok {
		return errUnsupported
	}
	return f.simple("DeleteBatch", strings.Join(paths, ","), true, func() error { return bd.DeleteBatch(ctx, paths) })
}

func (f *FS) RemoveDirectory(ctx context.Context, path string) error {
	dr, ok := f.inner.(storage.DirectoryRemover)
	if !ok {
		return errUnsupported
	}
	return f.simple("RemoveDirectory", path, true, func() error { return dr.RemoveDirectory(ctx, path) })
}

func (f *FS) AppendReader(ctx context.Context, path string, r io.Reader, n int64) error {
	ab, ok := f.inner.(storage.AppendingBackend)
	if !ok {
		return storage.ErrResumeNotSupported
	}
	return f.simple("AppendReader", path, true, func() error { return ab.AppendReader(ctx, path, r, n) })
}

var (
	_ storage.Backend          = (*FS)(nil)
	_ storage.ObjectLister     = (*FS)(nil)
	_ storage.BatchDeleter     = (*FS)(nil)
	_ storage.DirectoryLister  = (*FS)(nil)
	_ storage.DirectoryRemover = (*FS)(nil)
	_ storage.AppendingBackend = (*FS)(nil)
)
