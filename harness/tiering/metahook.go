package main

// Metadata hook: tiering.MetadataStore takes a concrete *sql.DB, so failures of
// its writes are injected INSIDE real SQLite: the harness opens the metadata file
// through a mattn/go-sqlite3 driver whose connections carry a Go function
// verif_evt(op, key), and installs triggers on arc's two tiering tables that call
// it. The function reports every metadata write to the shared controller (same
// event log as the storage calls) and, when the controller says so, returns an
// error, which makes SQLite abort and roll back exactly that statement: the
// caller (UpdateTier, RecordFile, RecordMigration...) sees a failed statement.
// A crash "late" at a metadata write lets the statement commit and freezes
// everything after it.

import (
	"database/sql"
	"fmt"
	"sync/atomic"

	sqlite3 "github.com/mattn/go-sqlite3"
)

var driverSeq atomic.Int64

// registerMetaDriver registers a driver bound to ctl and returns its name.
func registerMetaDriver(ctl *Ctl) string {
	name := fmt.Sprintf("sqlite3_verif_tiering_%d", driverSeq.Add(1))
	sql.Register(name, &sqlite3.SQLiteDriver{
		ConnectHook: func(conn *sqlite3.SQLiteConn) error {
			return conn.RegisterFunc("verif_evt", func(op, key string) (int64, error) {
				d := ctl.enter("meta", op, key, true)
				switch d.act {
				case actDead, actBefore:
					return 0, injErr(d, "meta", op, key)
				case actMid, actLate, actCommit:
					// the statement goes through; for a crash everything after it is dead
					ctl.after(d)
				}
				return 1, nil
			}, false)
		},
	})
	return name
}

// metaTriggers are created after arc's schema exists. AFTER INSERT fires only for
// real inserts (not for the ON CONFLICT DO UPDATE arm of RecordFile); the UPDATE
// trigger fires only when the tier really changes.
const metaTriggers = `
CREATE TRIGGER IF NOT EXISTS verif_tf_ins AFTER INSERT ON tier_files
BEGIN SELECT verif_evt('register', NEW.path); END;
CREATE TRIGGER IF NOT EXISTS verif_tf_upd BEFORE UPDATE ON tier_files WHEN OLD.tier <> NEW.tier
BEGIN SELECT verif_evt('tier:' || OLD.tier || '>' || NEW.tier, NEW.path); END;
CREATE TRIGGER IF NOT EXISTS verif_tf_del BEFORE DELETE ON tier_files
BEGIN SELECT verif_evt('unregister', OLD.path); END;
CREATE TRIGGER IF NOT EXISTS verif_tm_ins AFTER INSERT ON tier_migrations
BEGIN SELECT verif_evt('history.start', NEW.file_path); END;
CREATE TRIGGER IF NOT EXISTS verif_tm_upd BEFORE UPDATE ON tier_migrations
BEGIN SELECT verif_evt('history.end', NEW.file_path); END;
`

func openMeta(driver, file string) (*sql.DB, error) {
	// same DSN options as cmd/arc/main.go sharedSQLiteHandle
	return sql.Open(driver, file+"?_journal_mode=WAL&_busy_timeout=5000")
}

// metaTiers reads path -> tier straight from arc's table (observation only).
func metaTiers(db *sql.DB, dbname string) (map[string]string, error) {
	rows, err := db.Query(`SELECT path, tier FROM tier_files WHERE database = ?`, dbname)
	if err != nil {
		return nil, err
	}
	defer rows.Close()
	out := map[string]string{}
	for rows.Next() {
		var p, t string
		if err := rows.Scan(&p, &t); err != nil {
			return nil, err
		}
		out[p] = t
	}
	return out, rows.Err()
}
