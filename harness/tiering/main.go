// Harness for the tiering area: C12 (tier migration never makes data unreadable
// or visible twice).
package main

import (
	"flag"
	"fmt"
	"os"

	"github.com/basekick-labs/arc/internal/zzverif/vlib"
)

func main() {
	prop := flag.String("prop", "", "property id")
	flag.String("replay", "", "replay file")
	flag.Parse()
	switch *prop {
	case "C12":
		vlib.Main("C12", "fault_enumeration", checkC12)
	default:
		fmt.Println("unknown property", *prop)
		os.Exit(2)
	}
}
