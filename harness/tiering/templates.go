package main

// Template Parquet files: written ONCE per process through arc's real ingest path
// (line protocol -> ArrowBuffer -> Parquet on a LocalBackend) on a throw-away vfix
// node, then read back with the independent arrow-go reader to learn which rids
// each stored file holds. Cases copy these bytes into their own database directory
// under the hot root (under a *_daily.parquet name, because the migrator only
// moves daily-compacted files).

import (
	"bytes"
	"crypto/sha256"
	"encoding/hex"
	"fmt"
	"math/rand/v2"
	"os"
	"path/filepath"
	"sort"
	"strconv"
	"time"

	"github.com/basekick-labs/arc/internal/config"
	"github.com/basekick-labs/arc/internal/zzverif/vfix"
	"github.com/basekick-labs/arc/internal/zzverif/vpq"
)

// Template is one arc-written Parquet file and its ground truth.
type Template struct {
	Class string  `json:"class"` // size class it was generated for
	Size  int64   `json:"size"`
	Sha   string  `json:"sha"`
	Rows  int     `json:"rows"`
	Rids  []int64 `json:"-"`
	Bytes []byte  `json:"-"`
}

type tplSpec struct {
	class  string
	rows   int
	floats int
	strLen int
}

// size classes: below one io.Copy buffer (32 KiB), a few buffers, ~1 MiB, multi-MiB,
// plus spare tiny/small ones for batches and the resident (never migrated) file.
var tplSpecs = []tplSpec{
	{"tiny", 3, 1, 0},
	{"sub32k", 150, 4, 40},
	{"100k", 700, 8, 64},
	{"1m", 7000, 8, 64},
	{"multi", 30000, 8, 64},
	{"tiny2", 5, 1, 8},
	{"small2", 300, 4, 40},
	{"resident", 40, 2, 16},
	{"resident2", 25, 2, 16},
}

const letters = "abcdefghijklmnopqrstuvwxyzABCDEFGHIJKLMNOPQRSTUVWXYZ0123456789"

func shaHex(b []byte) string {
	h := sha256.Sum256(b)
	return hex.EncodeToString(h[:])
}

// buildTemplates ingests one measurement per spec and returns the stored files.
// A non-empty string result means "inconclusive" (ingest did not store what was sent:
// C01's subject, not C12's).
func buildTemplates(rng *rand.Rand) (map[string][]*Template, string, error) {
	ing := &config.IngestConfig{
		MaxBufferSize: 1000000, MaxBufferAgeMS: 600000, Compression: "snappy", WriteStatistics: true,
		DataPageVersion: "2.0", FlushWorkers: 4, FlushQueueSize: 1000, ShardCount: 4,
	}
	n, err := vfix.NewNode(vfix.Options{Ingest: ing})
	if err != nil {
		return nil, "", err
	}
	defer n.Close()
	out := map[string][]*Template{}
	var accepted int64
	base := time.Date(2020, 1, 2, 3, 0, 0, 0, time.UTC).UnixMicro()
	for si, sp := range tplSpecs {
		mname := "s" + strconv.Itoa(si)
		var body bytes.Buffer
		want := map[int64]bool{}
		for i := 0; i < sp.rows; i++ {
			rid := int64(si+1)*1000000 + int64(i)
			want[rid] = true
			fmt.Fprintf(&body, "%s,host=h%d rid=%di", mname, i%3, rid)
			for f := 0; f < sp.floats; f++ {
				fmt.Fprintf(&body, ",f%d=%s", f, strconv.FormatFloat(rng.NormFloat64()*1e3, 'g', -1, 64))
			}
			if sp.strLen > 0 {
				b := make([]byte, sp.strLen)
				for k := range b {
					b[k] = letters[rng.IntN(len(letters))]
				}
				fmt.Fprintf(&body, ",s=\"%s\"", b)
			}
			fmt.Fprintf(&body, " %d\n", base+int64(si)*3600*1000000+int64(i))
		}
		code, b, _ := n.Do("POST", "/write?db=tpl&precision=us", nil, body.Bytes())
		if code != 204 {
			return nil, fmt.Sprintf("template %s: write rejected with HTTP %d: %s", sp.class, code, b), nil
		}
		accepted += int64(sp.rows)
		if !n.Quiesce(accepted) {
			return nil, fmt.Sprintf("template %s: flush did not quiesce within the watchdog", sp.class), nil
		}
		files := vfix.ParquetFiles(n.Root, "tpl", mname)
		sort.Strings(files)
		got := map[int64]int{}
		for _, abs := range files {
			rel, _ := filepath.Rel(n.Root, abs)
			pf, err := vpq.ReadFile(abs, rel)
			if err != nil {
				return nil, "", fmt.Errorf("template %s: independent reader cannot read %s: %w", sp.class, rel, err)
			}
			raw, err := os.ReadFile(abs)
			if err != nil {
				return nil, "", err
			}
			t := &Template{Class: sp.class, Size: int64(len(raw)), Sha: shaHex(raw), Rows: pf.NumRow, Bytes: raw}
			for _, r := range pf.Rows {
				rid, ok := r["rid"].(int64)
				if !ok {
					return nil, fmt.Sprintf("template %s: rid column missing or not int64 in %s", sp.class, rel), nil
				}
				t.Rids = append(t.Rids, rid)
				got[rid]++
			}
			out[sp.class] = append(out[sp.class], t)
		}
		if len(got) != len(want) {
			return nil, fmt.Sprintf("template %s: ingest stored %d distinct rids of %d sent", sp.class, len(got), len(want)), nil
		}
		for rid, k := range got {
			if k != 1 || !want[rid] {
				return nil, fmt.Sprintf("template %s: ingest stored rid %d %d times", sp.class, rid, k), nil
			}
		}
	}
	// a zero-byte object (not Parquet, holds no rows): only the file-level oracle
	// applies to it; it lives in its own measurement so that no query globs it
	out["empty"] = []*Template{{Class: "empty", Size: 0, Sha: shaHex(nil), Bytes: []byte{}}}
	return out, "", nil
}
