package main

// faultfs: a fault-injecting, call-logging storage.Backend wrapper. It forwards
// every call to a real backend (a storage.LocalBackend here) and fails the calls
// selected by the armed plan. It implements every optional interface that
// LocalBackend implements (ObjectLister is type-asserted by CreateBackup,
// BatchDeleter by DeleteBackup), forwarding when the inner backend has it.

import (
	"context"
	"errors"
	"fmt"
	"io"
	"sync"

	"github.com/basekick-labs/arc/internal/storage"
)

// Fault selects one class of calls on one store to fail.
//
//	Store: "source" (data storage during backup), "backup" (the backup
//	       destination), "target" (data storage during restore)
//	Op:    "read"  (Read/ReadTo/ReadToAt of Key)
//	       "write" (Write/WriteReader/AppendReader of Key)
//	       "list"  (List/ListObjects; Key ignored)
//	Key:   source/target: the storage path; backup: the path below the backup id
//	       ("data/<original path>", "manifest.json")
//	Mode:  "error"   fail before touching the inner backend
//	       "partial" deliver about half of the bytes, then fail (a read that
//	                 breaks mid-stream; a write that leaves LocalBackend's
//	                 "<path>.part" staging file behind, like ENOSPC would)
type Fault struct {
	Store string `json:"store"`
	Op    string `json:"op"`
	Key   string `json:"key,omitempty"`
	Mode  string `json:"mode"`
}

// Call is one logged backend call.
type Call struct {
	Op       string `json:"op"`
	Key      string `json:"key"`
	Err      string `json:"err,omitempty"`
	Injected bool   `json:"injected,omitempty"`
}

var errInjected = errors.New("faultfs: injected failure")

type FS struct {
	name  string
	inner storage.Backend
	keyOf func(string) string // storage path -> fault key

	mu        sync.Mutex
	readFail  map[string]string
	writeFail map[string]string
	listFail  bool
	calls     map[string]int64
	fired     []Call
	log       []Call
}

const maxLog = 4096

func newFS(name string, inner storage.Backend, keyOf func(string) string) *FS {
	if keyOf == nil {
		keyOf = func(s string) string { return s }
	}
	return &FS{name: name, inner: inner, keyOf: keyOf,
		readFail: map[string]string{}, writeFail: map[string]string{}, calls: map[string]int64{}}
}

// Arm installs the faults addressed to this store (others are ignored).
func (f *FS) Arm(faults []Fault) {
	f.mu.Lock()
	defer f.mu.Unlock()
	f.readFail, f.writeFail, f.listFail = map[string]string{}, map[string]string{}, false
	for _, x := range faults {
		if x.Store != f.name {
			continue
		}
		switch x.Op {
		case "read":
			f.readFail[x.Key] = x.Mode
		case "write":
			f.writeFail[x.Key] = x.Mode
		case "list":
			f.listFail = true
		}
	}
}

// Fired returns the calls that were failed by injection.
func (f *FS) Fired() []Call {
	f.mu.Lock()
	defer f.mu.Unlock()
	return append([]Call(nil), f.fired...)
}

// Calls returns per-operation call counts.
func (f *FS) Calls() map[string]int64 {
	f.mu.Lock()
	defer f.mu.Unlock()
	out := map[string]int64{}
	for k, v := range f.calls {
		out[k] = v
	}
	return out
}

func (f *FS) note(op, path string, err error, injected bool) {
	c := Call{Op: op, Key: path, Injected: injected}
	if err != nil {
		c.Err = err.Error()
	}
	f.mu.Lock()
	f.calls[op]++
	if len(f.log) < maxLog {
		f.log = append(f.log, c)
	}
	if injected {
		f.fired = append(f.fired, c)
	}
	f.mu.Unlock()
}

func (f *FS) rmode(path string) (string, bool) {
	f.mu.Lock()
	defer f.mu.Unlock()
	m, ok := f.readFail[f.keyOf(path)]
	return m, ok
}

func (f *FS) wmode(path string) (string, bool) {
	f.mu.Lock()
	defer f.mu.Unlock()
	m, ok := f.writeFail[f.keyOf(path)]
	return m, ok
}

func (f *FS) inj(op, path string) error {
	return fmt.Errorf("%w: %s %s on %s store", errInjected, op, path, f.name)
}

// ── storage.Backend ─────────────────────────────────────────────────────

func (f *FS) Write(ctx context.Context, path string, data []byte) error {
	if _, ok := f.wmode(path); ok {
		err := f.inj("Write", path)
		f.note("Write", path, err, true)
		return err
	}
	err := f.inner.Write(ctx, path, data)
	f.note("Write", path, err, false)
	return err
}

type breakingReader struct {
	r   io.Reader
	err error
}

func (b *breakingReader) Read(p []byte) (int, error) {
	n, err := b.r.Read(p)
	if err == io.EOF {
		return n, b.err
	}
	return n, err
}

func (f *FS) WriteReader(ctx context.Context, path string, reader io.Reader, size int64) error {
	if mode, ok := f.wmode(path); ok {
		err := f.inj("WriteReader", path)
		if mode == "partial" {
			// the inner backend receives half of the bytes and then a read error:
			// LocalBackend returns an error and leaves "<path>.part" behind
			ierr := f.inner.WriteReader(ctx, path, &breakingReader{r: io.LimitReader(reader, size/2), err: err}, size)
			if ierr == nil {
				ierr = err
			}
			err = ierr
		}
		f.note("WriteReader", path, err, true)
		return err
	}
	err := f.inner.WriteReader(ctx, path, reader, size)
	f.note("WriteReader", path, err, false)
	return err
}

func (f *FS) Read(ctx context.Context, path string) ([]byte, error) {
	if _, ok := f.rmode(path); ok {
		err := f.inj("Read", path)
		f.note("Read", path, err, true)
		return nil, err
	}
	b, err := f.inner.Read(ctx, path)
	f.note("Read", path, err, false)
	return b, err
}

func (f *FS) ReadTo(ctx context.Context, path string, w io.Writer) error {
	if mode, ok := f.rmode(path); ok {
		err := f.inj("ReadTo", path)
		if mode == "partial" {
			if b, rerr := f.inner.Read(ctx, path); rerr == nil {
				_, _ = w.Write(b[:len(b)/2])
			}
		}
		f.note("ReadTo", path, err, true)
		return err
	}
	err := f.inner.ReadTo(ctx, path, w)
	f.note("ReadTo", path, err, false)
	return err
}

func (f *FS) ReadToAt(ctx context.Context, path string, w io.Writer, off int64) error {
	if _, ok := f.rmode(path); ok {
		err := f.inj("ReadToAt", path)
		f.note("ReadToAt", path, err, true)
		return err
	}
	err := f.inner.ReadToAt(ctx, path, w, off)
	f.note("ReadToAt", path, err, false)
	return err
}

func (f *FS) StatFile(ctx context.Context, path string) (int64, error) {
	n, err := f.inner.StatFile(ctx, path)
	f.note("StatFile", path, err, false)
	return n, err
}

func (f *FS) listFails() bool {
	f.mu.Lock()
	defer f.mu.Unlock()
	return f.listFail
}

func (f *FS) List(ctx context.Context, prefix string) ([]string, error) {
	if f.listFails() {
		err := f.inj("List", prefix)
		f.note("List", prefix, err, true)
		return nil, err
	}
	l, err := f.inner.List(ctx, prefix)
	f.note("List", prefix, err, false)
	return l, err
}

func (f *FS) Delete(ctx context.Context, path string) error {
	err := f.inner.Delete(ctx, path)
	f.note("Delete", path, err, false)
	return err
}

func (f *FS) Exists(ctx context.Context, path string) (bool, error) {
	ok, err := f.inner.Exists(ctx, path)
	f.note("Exists", path, err, false)
	return ok, err
}

func (f *FS) Close() error       { return f.inner.Close() }
func (f *FS) Type() string       { return f.inner.Type() }
func (f *FS) ConfigJSON() string { return f.inner.ConfigJSON() }

// ── optional interfaces (all implemented by LocalBackend) ───────────────

var errUnsupported = errors.New("faultfs: inner backend does not implement this optional interface")

func (f *FS) ListObjects(ctx context.Context, prefix string) ([]storage.ObjectInfo, error) {
	if f.listFails() {
		err := f.inj("ListObjects", prefix)
		f.note("ListObjects", prefix, err, true)
		return nil, err
	}
	ol, ok := f.inner.(storage.ObjectLister)
	if !ok {
		return nil, errUnsupported
	}
	l, err := ol.ListObjects(ctx, prefix)
	f.note("ListObjects", prefix, err, false)
	return l, err
}

func (f *FS) ListDirectories(ctx context.Context, prefix string) ([]string, error) {
	dl, ok := f.inner.(storage.DirectoryLister)
	if !ok {
		return nil, errUnsupported
	}
	l, err := dl.ListDirectories(ctx, prefix)
	f.note("ListDirectories", prefix, err, false)
	return l, err
}

func (f *FS) DeleteBatch(ctx context.Context, paths []string) error {
	bd, ok := f.inner.(storage.BatchDeleter)
	if !ok {
		return errUnsupported
	}
	err := bd.DeleteBatch(ctx, paths)
	f.note("DeleteBatch", fmt.Sprintf("%d paths", len(paths)), err, false)
	return err
}

func (f *FS) RemoveDirectory(ctx context.Context, path string) error {
	dr, ok := f.inner.(storage.DirectoryRemover)
	if !ok {
		return errUnsupported
	}
	err := dr.RemoveDirectory(ctx, path)
	f.note("RemoveDirectory", path, err, false)
	return err
}

func (f *FS) AppendReader(ctx context.Context, path string, r io.Reader, n int64) error {
	if _, ok := f.wmode(path); ok {
		err := f.inj("AppendReader", path)
		f.note("AppendReader", path, err, true)
		return err
	}
	ab, ok := f.inner.(storage.AppendingBackend)
	if !ok {
		return storage.ErrResumeNotSupported
	}
	err := ab.AppendReader(ctx, path, r, n)
	f.note("AppendReader", path, err, false)
	return err
}

var (
	_ storage.Backend          = (*FS)(nil)
	_ storage.ObjectLister     = (*FS)(nil)
	_ storage.BatchDeleter     = (*FS)(nil)
	_ storage.DirectoryLister  = (*FS)(nil)
	_ storage.DirectoryRemover = (*FS)(nil)
	_ storage.AppendingBackend = (*FS)(nil)
)
