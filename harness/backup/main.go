// Harness for the backup area: C13 (backup then restore reproduces the data or
// reports failure).
package main

import (
	"flag"
	"fmt"
	"os"

	"github.com/basekick-labs/arc/internal/zzverif/vlib"
)

func main() {
	prop := flag.String("prop", "", "property id")
	flag.String("replay", "", "replay file")
	flag.Parse()
	switch *prop {
	case "C13":
		vlib.Main("C13", "fault_enumeration", checkC13)
	default:
		fmt.Println("unknown property", *prop)
		os.Exit(2)
	}
}
