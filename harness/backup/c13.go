package main

// C13: restoring a completed backup into empty storage reproduces every backed-up
// data file and Iceberg metadata file byte-for-byte at its original path; if any
// backed-up file cannot be restored the restore does not report success; a backup
// that skipped unreadable files records that it is incomplete.
//
// The real backup.Manager runs over faultfs-wrapped LocalBackends. Ground truth
// is the generator's path -> sha256 map; the state after each operation is read
// by walking the real directories, never through arc code.

import (
	"bytes"
	"context"
	"crypto/sha256"
	"database/sql"
	"encoding/hex"
	"encoding/json"
	"fmt"
	"math/rand/v2"
	"os"
	"path/filepath"
	"reflect"
	"sort"
	"strings"
	"sync"
	"unsafe"

	"github.com/basekick-labs/arc/internal/backup"
	"github.com/basekick-labs/arc/internal/storage"
	"github.com/basekick-labs/arc/internal/zzverif/vlib"
	_ "github.com/mattn/go-sqlite3"
	"github.com/rs/zerolog"
)

// Scenario is one evaluated case on one tree; it is also the replay unit.
type Scenario struct {
	Kind          string  `json:"kind"` // roundtrip | restore_fault | backup_fault | restore_options
	BackupFaults  []Fault `json:"backup_faults"`
	RestoreFaults []Fault `json:"restore_faults"`
	// BackupOptions{IncludeMetadata, IncludeConfig} of the backup this scenario
	// takes (or, for restore-only scenarios, of the tree's base backup).
	BackupMeta   bool `json:"backup_include_metadata"`
	BackupConfig bool `json:"backup_include_config"`
	// RestoreOptions: RestoreData is !SkipData (so that replay files written
	// before these fields existed keep meaning data-only).
	SkipData      bool `json:"restore_skip_data"`
	RestoreMeta   bool `json:"restore_metadata"`
	RestoreConfig bool `json:"restore_config"`
}

// restoreCombos: every RestoreOptions combination with RestoreData=true, as
// {RestoreMetadata, RestoreConfig}.
var restoreCombos = [][2]bool{{false, false}, {true, false}, {true, true}, {false, true}}

func (sc Scenario) withRestore(combo [2]bool) Scenario {
	sc.RestoreMeta, sc.RestoreConfig = combo[0], combo[1]
	return sc
}

type finding struct {
	Sig    string
	Detail map[string]any
}

// channels is every way an operation tells its caller how it went.
type channels struct {
	Err            string `json:"returned_error"`
	ResultNil      bool   `json:"result_is_nil"`
	Status         string `json:"progress_status"`
	ProgressError  string `json:"progress_error"`
	TotalFiles     int64  `json:"progress_total_files"`
	ProcessedFiles int64  `json:"progress_processed_files"`
	SkippedFiles   int64  `json:"progress_skipped_files"`
	ManifestSkips  int64  `json:"result_manifest_skipped_files"`
}

// success: the operation told at least one kind of caller that it succeeded:
// the synchronous caller (nil error) or the operator polling /status
// (status "completed").
func (ch channels) success() bool { return ch.Err == "" || ch.Status == "completed" }

// storedManifest is the harness' own reading of <id>/manifest.json.
type storedManifest struct {
	BackupID       string `json:"backup_id"`
	TotalFiles     int64  `json:"total_files"`
	TotalSizeBytes int64  `json:"total_size_bytes"`
	SkippedFiles   int64  `json:"skipped_files"`
	HasMetadata    bool   `json:"has_metadata"`
	HasCatalog     bool   `json:"has_iceberg_catalog"`
	HasConfig      bool   `json:"has_config"`
	Databases      []struct {
		Name         string `json:"name"`
		FileCount    int    `json:"file_count"`
		SizeBytes    int64  `json:"size_bytes"`
		Measurements []struct {
			Name      string `json:"name"`
			FileCount int    `json:"file_count"`
			SizeBytes int64  `json:"size_bytes"`
		} `json:"measurements"`
	} `json:"databases"`
}

type backupOutcome struct {
	Ch        channels
	Dir       string            // backup destination directory
	ID        string            // backup id ("" if no backup directory was created)
	Store     map[string]string // original path -> sha256 of <id>/data/<path>
	Manifest  *storedManifest   // nil if no manifest.json was written
	Extra     map[string]string // "metadata/arc.db", "metadata/iceberg-catalog.db", "config/arc.toml" -> sha256
	Fired     []Call
	WarnLines []string
}

type restoreOutcome struct {
	Ch        channels
	Target    map[string]string // path -> sha256 in the restore target
	Extra     map[string]string // same keys as backupOutcome.Extra: the restored installation files
	Fired     []Call
	WarnLines []string
}

type env struct {
	c       *vlib.Ctx
	scratch string
	t       *tree
	srcDir  string
	seq     int
	// live "installation" files next to the source data: shared SQLite database,
	// arc.toml, and (for some trees) a separate Iceberg SQL catalog database
	sqlitePath, configPath, catalogPath string
}

// makeInstallFiles creates a real small SQLite database (plus, for about half of
// the trees, a separate Iceberg catalog database) and an arc.toml.
func (e *env) makeInstallFiles(r *rand.Rand) {
	dir := filepath.Join(e.scratch, fmt.Sprintf("t%d-inst", e.t.Index))
	if err := os.MkdirAll(dir, 0o755); err != nil {
		panic(err)
	}
	mk := func(p, table string) {
		db, err := sql.Open("sqlite3", p)
		if err != nil {
			panic(err)
		}
		defer db.Close()
		if _, err := db.Exec("CREATE TABLE " + table + " (id INTEGER PRIMARY KEY, v TEXT)"); err != nil {
			panic(err)
		}
		for i := 0; i < 3+r.IntN(20); i++ {
			if _, err := db.Exec("INSERT INTO "+table+" (v) VALUES (?)", fmt.Sprintf("tree%d-%s-%s", e.t.Index, table, hexid(r, 24))); err != nil {
				panic(err)
			}
		}
	}
	e.sqlitePath = filepath.Join(dir, "arc.db")
	mk(e.sqlitePath, "tokens")
	if r.IntN(2) == 0 {
		e.catalogPath = filepath.Join(dir, "iceberg-catalog.db")
		mk(e.catalogPath, "iceberg_tables")
	}
	e.configPath = filepath.Join(dir, "arc.toml")
	if err := os.WriteFile(e.configPath, []byte(fmt.Sprintf("# tree %d\n[storage]\nbackend = \"local\"\nsecret = \"%s\"\n", e.t.Index, hexid(r, 32))), 0o600); err != nil {
		panic(err)
	}
}

func (e *env) fresh(prefix string) string {
	e.seq++
	d := filepath.Join(e.scratch, fmt.Sprintf("t%d-%s-%d", e.t.Index, prefix, e.seq))
	if err := os.MkdirAll(d, 0o755); err != nil {
		panic(err)
	}
	return d
}

// setBackupStorage replaces the manager's backup destination backend. NewManager
// builds that LocalBackend itself from ManagerConfig.BackupPath and offers no
// exported way to supply one, so the unexported field is swapped for a faultfs
// wrapper around the backend NewManager created. Injection only: nothing is
// observed through this.
func setBackupStorage(m *backup.Manager, wrap func(storage.Backend) storage.Backend) {
	v := reflect.ValueOf(m).Elem().FieldByName("backupStorage")
	if !v.IsValid() {
		panic("backup.Manager has no field backupStorage: harness needs updating")
	}
	p := reflect.NewAt(v.Type(), unsafe.Pointer(v.UnsafeAddr())).Elem()
	old, ok := p.Interface().(storage.Backend)
	if !ok || old == nil {
		panic("backup.Manager.backupStorage is not a storage.Backend")
	}
	p.Set(reflect.ValueOf(wrap(old)))
}

// backupKey maps a backup-store path "<id>/<rest>" to the fault key "<rest>".
func backupKey(p string) string {
	p = filepath.ToSlash(p)
	if i := strings.IndexByte(p, '/'); i >= 0 {
		return p[i+1:]
	}
	return p
}

func warnLines(buf *bytes.Buffer) []string {
	var out []string
	for _, l := range strings.Split(buf.String(), "\n") {
		if l != "" && len(out) < 6 {
			out = append(out, l)
		}
	}
	return out
}

func progressInto(ch *channels, p *backup.Progress) {
	if p == nil {
		return
	}
	ch.Status, ch.ProgressError = p.Status, p.Error
	ch.TotalFiles, ch.ProcessedFiles, ch.SkippedFiles = p.TotalFiles, p.ProcessedFiles, p.SkippedFiles
}

func (e *env) countCalls(store string, fs *FS) {
	var n int64
	for _, v := range fs.Calls() {
		n += v
	}
	e.c.Count("storage_calls_logged", n)
	for _, f := range fs.Fired() {
		op := "read"
		switch f.Op {
		case "Write", "WriteReader", "AppendReader":
			op = "write"
		case "List", "ListObjects":
			op = "list"
		}
		e.c.Count("faults_fired_"+store+"_"+op, 1)
	}
}

var extraKeys = []string{"metadata/arc.db", "metadata/iceberg-catalog.db", "config/arc.toml"}

// runBackup runs CreateBackup of the tree into a fresh backup directory.
func fileSum(p string) (string, bool) {
	b, err := os.ReadFile(p)
	if err != nil {
		return "", false
	}
	h := sha256.Sum256(b)
	return hex.EncodeToString(h[:]), true
}

func (e *env) runBackup(sc Scenario) *backupOutcome {
	faults := sc.BackupFaults
	out := &backupOutcome{Dir: e.fresh("bk")}
	var logbuf bytes.Buffer
	logger := zerolog.New(&logbuf).Level(zerolog.WarnLevel)
	inner, err := storage.NewLocalBackend(e.srcDir, zerolog.Nop())
	if err != nil {
		panic(err)
	}
	src := newFS("source", inner, nil)
	src.Arm(faults)
	mgr, err := backup.NewManager(&backup.ManagerConfig{DataStorage: src, BackupPath: out.Dir, Logger: logger,
		SQLiteDBPath: e.sqlitePath, IcebergCatalogDBPath: e.catalogPath, ConfigPath: e.configPath})
	if err != nil {
		panic(err)
	}
	var bfs *FS
	setBackupStorage(mgr, func(old storage.Backend) storage.Backend {
		bfs = newFS("backup", old, backupKey)
		bfs.Arm(faults)
		return bfs
	})
	res, berr := mgr.CreateBackup(context.Background(), backup.BackupOptions{IncludeMetadata: sc.BackupMeta, IncludeConfig: sc.BackupConfig})
	if berr != nil {
		out.Ch.Err = berr.Error()
	}
	out.Ch.ResultNil = res == nil
	if res != nil && res.Manifest != nil {
		out.Ch.ManifestSkips = res.Manifest.SkippedFiles
		out.ID = res.Manifest.BackupID
	}
	progressInto(&out.Ch, mgr.GetProgress())
	out.Fired = append(src.Fired(), bfs.Fired()...)
	out.WarnLines = warnLines(&logbuf)
	e.countCalls("source", src)
	e.countCalls("backup", bfs)
	e.c.Count("backups_run", 1)

	// what is really in the backup destination
	if out.ID == "" {
		ents, _ := os.ReadDir(out.Dir)
		for _, d := range ents {
			if d.IsDir() {
				out.ID = d.Name()
			}
		}
	}
	out.Store = map[string]string{}
	if out.ID != "" {
		st, err := digest(filepath.Join(out.Dir, out.ID, "data"))
		if err != nil {
			panic(err)
		}
		out.Store = st
		out.Extra = map[string]string{}
		for _, k := range extraKeys {
			if sum, ok := fileSum(filepath.Join(out.Dir, out.ID, filepath.FromSlash(k))); ok {
				out.Extra[k] = sum
			}
		}
		if b, err := os.ReadFile(filepath.Join(out.Dir, out.ID, "manifest.json")); err == nil {
			var sm storedManifest
			if json.Unmarshal(b, &sm) == nil {
				out.Manifest = &sm
			}
		}
	}
	return out
}

// runRestore restores backup id from dir into a fresh, empty target.
func (e *env) runRestore(dir, id string, sc Scenario, faults []Fault) *restoreOutcome {
	out := &restoreOutcome{Extra: map[string]string{}}
	tdir := e.fresh("tg")
	defer os.RemoveAll(tdir)
	// the new installation's SQLite / catalog / config locations (outside the
	// data directory, like in a real deployment); empty before the restore
	idir := e.fresh("tginst")
	defer os.RemoveAll(idir)
	inst := map[string]string{
		"metadata/arc.db": filepath.Join(idir, "arc.db"), "config/arc.toml": filepath.Join(idir, "arc.toml"),
	}
	catalog := ""
	if e.catalogPath != "" {
		catalog = filepath.Join(idir, "iceberg-catalog.db")
		inst["metadata/iceberg-catalog.db"] = catalog
	}
	var logbuf bytes.Buffer
	logger := zerolog.New(&logbuf).Level(zerolog.WarnLevel)
	inner, err := storage.NewLocalBackend(tdir, zerolog.Nop())
	if err != nil {
		panic(err)
	}
	tgt := newFS("target", inner, nil)
	tgt.Arm(faults)
	mgr, err := backup.NewManager(&backup.ManagerConfig{DataStorage: tgt, BackupPath: dir, Logger: logger,
		SQLiteDBPath: inst["metadata/arc.db"], IcebergCatalogDBPath: catalog, ConfigPath: inst["config/arc.toml"]})
	if err != nil {
		panic(err)
	}
	var bfs *FS
	setBackupStorage(mgr, func(old storage.Backend) storage.Backend {
		bfs = newFS("backup", old, backupKey)
		bfs.Arm(faults)
		return bfs
	})
	res, rerr := mgr.RestoreBackup(context.Background(), backup.RestoreOptions{BackupID: id,
		RestoreData: !sc.SkipData, RestoreMetadata: sc.RestoreMeta, RestoreConfig: sc.RestoreConfig})
	if rerr != nil {
		out.Ch.Err = rerr.Error()
	}
	out.Ch.ResultNil = res == nil
	if res != nil && res.Manifest != nil {
		out.Ch.ManifestSkips = res.Manifest.SkippedFiles
	}
	progressInto(&out.Ch, mgr.GetProgress())
	out.Fired = append(tgt.Fired(), bfs.Fired()...)
	out.WarnLines = warnLines(&logbuf)
	e.countCalls("target", tgt)
	e.countCalls("backup", bfs)
	e.c.Count("restores_run", 1)
	tg, err := digest(tdir)
	if err != nil {
		panic(err)
	}
	out.Target = tg
	for k, p := range inst {
		if sum, ok := fileSum(p); ok {
			out.Extra[k] = sum
		}
	}
	return out
}

func faultOn(faults []Fault, store, op, key string) bool {
	for _, f := range faults {
		if f.Store == store && f.Op == op && (op == "list" || f.Key == key) {
			return true
		}
	}
	return false
}

func head(s []string, n int) []string {
	if len(s) > n {
		return s[:n]
	}
	return s
}

// checkBackup judges a backup outcome against the source ground truth. It
// returns the sorted list of required source files the backup does not hold
// intact (only meaningful when the backup counts as completed).
func (e *env) checkBackup(sc Scenario, bo *backupOutcome, add func(finding)) (completed bool, missing []string) {
	t := e.t
	// A backup is "completed" when it told a caller so, or when its manifest
	// exists in the destination (which is what makes it listable and restorable).
	completed = bo.Ch.success() || bo.Manifest != nil
	if !completed {
		e.c.Count("backups_reported_failed", 1)
		return false, nil
	}
	e.c.Count("backups_completed", 1)
	var altered []string
	for _, p := range t.Req {
		got, ok := bo.Store[p]
		switch {
		case !ok:
			missing = append(missing, p)
		case got != t.By[p].Sum:
			altered = append(altered, p)
			missing = append(missing, p)
		}
	}
	e.c.Count("backup_files_compared", int64(len(t.Req)))
	base := map[string]any{
		"seed": e.c.Seed, "tree": t.Index, "scenario": sc, "backup_channels": bo.Ch,
		"stored_manifest": bo.Manifest, "injected_calls": head2(bo.Fired), "arc_warnings": bo.WarnLines,
		"source_files": len(t.Req), "files_in_backup": len(bo.Store),
	}
	if len(altered) > 0 {
		d := clone(base)
		d["altered"] = head(altered, 5)
		add(finding{"completed backup holds different bytes than the source file", d})
	}
	if len(missing) == 0 {
		return completed, nil
	}
	recorded := bo.Manifest != nil && bo.Manifest.SkippedFiles > 0
	if bo.Ch.Err == "" && bo.Ch.ManifestSkips == 0 {
		recorded = false // the synchronous caller was handed a manifest without the marker
	}
	if recorded {
		e.c.Count("backups_incomplete_and_recorded", 1)
		return completed, missing
	}
	// classify by why the first missing file is missing
	p := missing[0]
	kind := t.By[p].Kind
	var sig string
	switch {
	case faultOn(sc.BackupFaults, "source", "read", p):
		sig = "completed backup skipped an unreadable source file but neither result nor manifest records it as incomplete"
	case faultOn(sc.BackupFaults, "backup", "write", "data/"+p):
		sig = "backup completed although a file could not be written to the backup store"
	case faultOn(sc.BackupFaults, "source", "list", ""):
		sig = "backup completed although listing the source failed"
	default:
		sig = "fault-free source file (" + kind + ") is not in the completed backup and the backup is not recorded as incomplete"
	}
	d := clone(base)
	d["missing_from_backup"] = head(missing, 5)
	d["missing_count"] = len(missing)
	add(finding{sig, d})
	return completed, missing
}

// checkManifestInventory: fault-free backups only. The manifest has no file
// list; its inventory is the per-database/measurement counts and sizes.
func (e *env) checkManifestInventory(sc Scenario, bo *backupOutcome, add func(finding)) {
	if bo.Manifest == nil {
		return
	}
	type agg struct {
		n  int
		sz int64
	}
	want := map[string]*agg{}
	var total agg
	for _, f := range e.t.Files {
		if !strings.HasSuffix(f.Path, ".parquet") {
			continue
		}
		db, meas := firstTwo(f.Path)
		k := db + "\x00" + meas
		if want[k] == nil {
			want[k] = &agg{}
		}
		want[k].n++
		want[k].sz += int64(f.Size)
		total.n++
		total.sz += int64(f.Size)
	}
	got := map[string]*agg{}
	for _, d := range bo.Manifest.Databases {
		for _, m := range d.Measurements {
			got[d.Name+"\x00"+m.Name] = &agg{m.FileCount, m.SizeBytes}
		}
	}
	bad := int64(total.n) != bo.Manifest.TotalFiles || total.sz != bo.Manifest.TotalSizeBytes || len(got) != len(want)
	for k, w := range want {
		if g := got[k]; g == nil || *g != *w {
			bad = true
		}
	}
	if bad {
		add(finding{"fault-free backup manifest inventory (file counts / sizes per database and measurement) differs from the source data files", map[string]any{
			"seed": e.c.Seed, "tree": e.t.Index, "scenario": sc, "stored_manifest": bo.Manifest,
			"want_total_files": total.n, "want_total_bytes": total.sz,
		}})
	}
}

// checkRestore judges a restore outcome: every file the backup holds must be in
// the target, byte-identical, at its original path, or the restore must not
// have reported success on any channel.
func (e *env) checkRestore(sc Scenario, bo *backupOutcome, ro *restoreOutcome, add func(finding)) {
	e.observeInstallFiles(sc, bo, ro)
	if sc.SkipData {
		// the caller did not ask for the data files: nothing of the property applies
		e.c.Count("restores_without_data_requested", 1)
		return
	}
	var bad []string
	paths := make([]string, 0, len(bo.Store))
	for p := range bo.Store {
		paths = append(paths, p)
	}
	sort.Strings(paths)
	good := 0
	for _, p := range paths {
		if got, ok := ro.Target[p]; !ok || got != bo.Store[p] {
			bad = append(bad, p)
		} else {
			good++
		}
	}
	e.c.Count("restore_files_compared", int64(len(paths)))
	succ := ro.Ch.success()
	if succ {
		e.c.Count("restores_reported_success", 1)
	} else {
		e.c.Count("restores_reported_failure", 1)
	}
	base := map[string]any{
		"seed": e.c.Seed, "tree": e.t.Index, "scenario": sc, "restore_channels": ro.Ch,
		"injected_calls": head2(ro.Fired), "arc_warnings": ro.WarnLines,
		"files_in_backup": len(bo.Store), "files_intact_in_target": good,
	}
	if succ && len(bad) > 0 {
		e.c.Count("restores_success_with_missing_files", 1)
		p := bad[0]
		_, present := ro.Target[p]
		var why string
		switch {
		case faultOn(sc.RestoreFaults, "backup", "read", "manifest.json"):
			why = "manifest read error"
		case faultOn(sc.RestoreFaults, "backup", "list", ""):
			why = "list error on backup store"
		case faultOn(sc.RestoreFaults, "target", "write", p):
			why = "write error on target"
		case faultOn(sc.RestoreFaults, "backup", "read", "data/"+p):
			why = "read error from backup store"
		case present:
			why = "no fault on it; restored bytes differ"
		default:
			why = "no fault on it; absent at its original path"
		}
		d := clone(base)
		d["not_restored"] = head(bad, 5)
		d["not_restored_count"] = len(bad)
		d["first_present_in_target"] = present
		add(finding{"restore reported success although a file failed to restore (" + why + ")", d})
	}
	// a successful restore cannot have restored more files than the backup holds
	// (it would be claiming files the backup skipped)
	if succ && ro.Ch.ProcessedFiles > int64(len(bo.Store)) {
		d := clone(base)
		add(finding{"restore reported success and counts more restored files than the backup holds", d})
	}
}

// observeInstallFiles: the SQLite database(s) and arc.toml are not data or
// Iceberg metadata files in the property's sense, so this only counts what
// happened to them (no verdict).
func (e *env) observeInstallFiles(sc Scenario, bo *backupOutcome, ro *restoreOutcome) {
	if bo.Manifest == nil {
		return
	}
	for _, k := range extraKeys {
		want, held := bo.Extra[k]
		asked := sc.RestoreMeta && bo.Manifest.HasMetadata
		if k == "config/arc.toml" {
			asked = sc.RestoreConfig && bo.Manifest.HasConfig
		}
		if !held || !asked {
			if _, ok := ro.Extra[k]; ok {
				e.c.Count("install_files_written_although_not_requested_or_not_held", 1)
			}
			continue
		}
		switch got, ok := ro.Extra[k]; {
		case ok && got == want:
			e.c.Count("install_files_restored_identical", 1)
		case ro.Ch.success():
			e.c.Count("install_files_missing_after_reported_success", 1)
		default:
			e.c.Count("install_files_missing_after_reported_failure", 1)
		}
	}
}

func clone(m map[string]any) map[string]any {
	o := make(map[string]any, len(m)+4)
	for k, v := range m {
		o[k] = v
	}
	return o
}

func head2(c []Call) []Call {
	if len(c) > 6 {
		return c[:6]
	}
	return c
}

func pickMode(r *rand.Rand) string {
	if r.IntN(3) == 0 {
		return "partial"
	}
	return "error"
}

func scenarioKey(t *tree, sc Scenario) string {
	return t.fingerprint() + "|" + vlib.JSON(sc)
}

// runScenario executes one scenario. base, when non-nil, is a fault-free backup
// of this tree to reuse for restore-only scenarios.
func (e *env) runScenario(sc Scenario, base *backupOutcome, add func(finding)) *backupOutcome {
	e.c.Eval()
	bo := base
	own := false
	if bo == nil || sc.Kind == "backup_fault" || sc.Kind == "roundtrip" {
		bo = e.runBackup(sc)
		own = true
		completed, missing := e.checkBackup(sc, bo, add)
		if len(sc.BackupFaults) == 0 {
			e.checkManifestInventory(sc, bo, add)
		}
		if len(sc.BackupFaults) == 0 || len(bo.Fired) > 0 {
			e.c.Nontrivial(scenarioKey(e.t, sc))
		}
		if !completed || bo.Manifest == nil {
			// nothing restorable was produced; a restore attempt must fail too
			if bo.ID != "" {
				ro := e.runRestore(bo.Dir, bo.ID, sc, nil)
				e.checkRestore(sc, bo, ro, add)
			}
			if sc.Kind != "roundtrip" {
				os.RemoveAll(bo.Dir)
			}
			return bo
		}
		if len(missing) > 0 {
			e.c.Count("restores_of_incomplete_backup", 1)
		}
	}
	ro := e.runRestore(bo.Dir, bo.ID, sc, sc.RestoreFaults)
	e.checkRestore(sc, bo, ro, add)
	if (len(sc.RestoreFaults) > 0 && len(ro.Fired) > 0) || sc.Kind == "restore_options" {
		e.c.Nontrivial(scenarioKey(e.t, sc))
	}
	e.c.Count(fmt.Sprintf("restores_with_options_data=%v_metadata=%v_config=%v", !sc.SkipData, sc.RestoreMeta, sc.RestoreConfig), 1)
	if own && sc.Kind != "roundtrip" {
		os.RemoveAll(bo.Dir)
	}
	return bo
}

// scenariosFor enumerates the scenarios of one tree after its fault-free round
// trip, given the files its base backup (taken with IncludeMetadata and
// IncludeConfig) holds.
func scenariosFor(r *rand.Rand, files []string) []Scenario {
	var out []Scenario
	n := len(files)
	// restore-only scenarios run against the base backup
	rs := func(combo [2]bool, faults ...Fault) Scenario {
		return Scenario{Kind: "restore_fault", BackupMeta: true, BackupConfig: true, RestoreFaults: faults}.withRestore(combo)
	}
	rd := func(p string) Fault {
		return Fault{Store: "backup", Op: "read", Key: "data/" + p, Mode: pickMode(r)}
	}
	wr := func(p string) Fault { return Fault{Store: "target", Op: "write", Key: p, Mode: pickMode(r)} }

	// (a') fault-free restores under every other RestoreOptions combination the
	// API accepts (the round trip itself used data+metadata+config)
	for _, data := range []bool{true, false} {
		for _, combo := range restoreCombos {
			if data && combo == [2]bool{true, true} {
				continue
			}
			sc := Scenario{Kind: "restore_options", BackupMeta: true, BackupConfig: true, SkipData: !data}.withRestore(combo)
			out = append(out, sc)
		}
	}
	// (b) restore: every file once per failure kind, the RestoreOptions
	// combination rotating so that each kind meets each combination on many files
	for i, p := range files {
		out = append(out, rs(restoreCombos[i%4], rd(p)), rs(restoreCombos[(i+2)%4], wr(p)))
	}
	// ... and the full (failure kind x combination) product on two files
	for _, i := range r.Perm(n)[:min(2, n)] {
		for _, combo := range restoreCombos {
			out = append(out, rs(combo, rd(files[i])), rs(combo, wr(files[i])))
		}
	}
	// list / manifest failures under every combination
	for _, combo := range restoreCombos {
		out = append(out,
			rs(combo, Fault{Store: "backup", Op: "list", Mode: "error"}),
			rs(combo, Fault{Store: "backup", Op: "read", Key: "manifest.json", Mode: "error"}))
	}
	// failures on the SQLite / config part, alone and together with a data file
	all := [2]bool{true, true}
	out = append(out,
		rs(all, Fault{Store: "backup", Op: "read", Key: "metadata/arc.db", Mode: "error"}),
		rs(all, Fault{Store: "backup", Op: "read", Key: "config/arc.toml", Mode: "error"}),
		rs(all, wr(files[r.IntN(n)]), Fault{Store: "backup", Op: "read", Key: "metadata/arc.db", Mode: "error"}),
		rs(all, rd(files[r.IntN(n)]), Fault{Store: "backup", Op: "read", Key: "config/arc.toml", Mode: "error"}),
		rs(all, rd(files[r.IntN(n)]), Fault{Store: "backup", Op: "read", Key: "metadata/iceberg-catalog.db", Mode: "error"}))
	for s := 0; s < 5; s++ {
		k := 1 + r.IntN(max(1, n/3))
		var fs []Fault
		for _, i := range r.Perm(n)[:k] {
			if r.IntN(2) == 0 {
				fs = append(fs, rd(files[i]))
			} else {
				fs = append(fs, wr(files[i]))
			}
		}
		out = append(out, rs(restoreCombos[r.IntN(4)], fs...))
	}
	// (c) backup: every file unreadable once, then subsets around the 10 % skip
	// ceiling, then list / backup-store write failures. BackupOptions and the
	// RestoreOptions of the follow-up restore rotate through all combinations.
	q := 0
	bs := func(faults ...Fault) Scenario {
		q++
		sc := Scenario{Kind: "backup_fault", BackupFaults: faults, BackupMeta: q&1 != 0, BackupConfig: q&2 != 0}
		return sc.withRestore(restoreCombos[(q/4)%4])
	}
	for _, p := range files {
		out = append(out, bs(Fault{Store: "source", Op: "read", Key: p, Mode: pickMode(r)}))
	}
	tenth := n / 10
	for _, k := range []int{2, tenth, tenth + 1, 1 + r.IntN(max(1, n/3)), 1 + r.IntN(max(1, tenth))} {
		if k < 1 {
			k = 1
		}
		if k > n {
			k = n
		}
		var fs []Fault
		for _, i := range r.Perm(n)[:k] {
			fs = append(fs, Fault{Store: "source", Op: "read", Key: files[i], Mode: pickMode(r)})
		}
		out = append(out, bs(fs...))
	}
	out = append(out, bs(Fault{Store: "source", Op: "list", Mode: "error"}))
	for s := 0; s < 3; s++ {
		out = append(out, bs(Fault{Store: "backup", Op: "write", Key: "data/" + files[r.IntN(n)], Mode: pickMode(r)}))
	}
	out = append(out, bs(Fault{Store: "backup", Op: "write", Key: "manifest.json", Mode: "error"}))
	// the SQLite / config copy fails (non-fatal by design: the manifest then says
	// has_metadata / has_config = false), together with a skipped data file
	for _, k := range []string{"metadata/arc.db", "config/arc.toml"} {
		sc := bs(Fault{Store: "backup", Op: "write", Key: k, Mode: "error"}, Fault{Store: "source", Op: "read", Key: files[r.IntN(n)], Mode: "error"})
		sc.BackupMeta, sc.BackupConfig, sc.RestoreMeta, sc.RestoreConfig = true, true, true, true
		out = append(out, sc)
	}
	// a skipped file at backup time followed by a failing restore
	for _, combo := range restoreCombos {
		sc := bs(Fault{Store: "source", Op: "read", Key: files[r.IntN(n)], Mode: "error"})
		sc.BackupMeta, sc.BackupConfig = true, true
		sc.RestoreFaults = []Fault{wr(files[r.IntN(n)])}
		out = append(out, sc.withRestore(combo))
	}
	return out
}

// runTree generates tree idx and evaluates all of its scenarios (or only the
// given one, for replay).
func runTree(c *vlib.Ctx, scratch string, idx int, only *Scenario) []finding {
	r := c.Rand(fmt.Sprintf("tree-%d", idx))
	var fnd []finding
	seen := map[string]bool{}
	add := func(f finding) {
		if !seen[f.Sig] {
			seen[f.Sig] = true
			fnd = append(fnd, f)
		}
	}
	srcDir := filepath.Join(scratch, fmt.Sprintf("t%d-src", idx))
	t, err := genTree(r, idx, srcDir)
	if err != nil {
		panic(err)
	}
	e := &env{c: c, scratch: scratch, t: t, srcDir: srcDir}
	e.makeInstallFiles(r)
	defer func() {
		ents, _ := os.ReadDir(scratch)
		for _, d := range ents {
			if strings.HasPrefix(d.Name(), fmt.Sprintf("t%d-", idx)) {
				os.RemoveAll(filepath.Join(scratch, d.Name()))
			}
		}
	}()
	c.Count("trees", 1)
	c.Count("source_files_generated", int64(len(t.Files)))
	c.Count("source_data_and_metadata_files", int64(len(t.Req)))

	if only != nil {
		e.runScenario(*only, nil, add)
		return fnd
	}

	// (a) fault-free round trip
	base := e.runScenario(Scenario{Kind: "roundtrip", BackupMeta: true, BackupConfig: true, RestoreMeta: true, RestoreConfig: true}, nil, add)
	if idx < 4 {
		c.Sample(map[string]any{"tree": idx, "files": len(t.Files), "data_and_metadata": len(t.Req),
			"in_backup": len(base.Store), "example_paths": head(t.Req, 3), "backup_channels": base.Ch,
			"backup_install_files": base.Extra, "separate_iceberg_catalog": e.catalogPath != ""})
	}
	if base.Manifest == nil || len(base.Store) == 0 {
		return fnd // already reported by checkBackup
	}
	files := make([]string, 0, len(base.Store))
	for p := range base.Store {
		files = append(files, p)
	}
	sort.Strings(files)
	for _, sc := range scenariosFor(r, files) {
		e.runScenario(sc, base, add)
	}
	return fnd
}

func checkC13(c *vlib.Ctx) {
	c.Rule("random storage trees (2-3 databases incl. hostile names such as 'data' or a backup-id look-alike, 1-3 measurements each incl. one named 'metadata', day/hour directories with 1-3 parquet-named files, compacted day files, Iceberg table directories with metadata.json/avro/version-hint/puffin files and Iceberg-owned parquet, hidden/staging/text files; sizes 0..64 KiB, unique content) are backed up and restored by the real backup.Manager over fault-injecting LocalBackend wrappers. Per tree: a fault-free round trip; a restore with a read failure from the backup store and a write failure on the target on EVERY backed-up file once, list and manifest failures, 5 random subsets; a backup with a source read failure on EVERY file once, 5 subsets around the skip ceiling, list failure, backup-store write failures; each completed backup is restored into an EMPTY target. Backups are taken over a real SQLite database (for half of the trees also a separate Iceberg catalog database) and an arc.toml, with every BackupOptions{IncludeMetadata,IncludeConfig} combination; restores run under every RestoreOptions{RestoreData,RestoreMetadata,RestoreConfig} combination: fault-free for all 8, the per-file fault enumeration rotating through the 4 combinations with RestoreData=true, the full kind x combination product on 2 files, list/manifest failures under all 4, failures on the SQLite/config copies alone and combined with a data-file failure. non-trivial = distinct (tree, scenario) pairs in which the injected fault really fired (or the fault-free round trip)")
	c.Assume("ground truth is the generator's path->sha256 map; backup and target contents are read by walking the real directories")
	c.Assume("'reports success' = RestoreBackup/CreateBackup returned a nil error OR the published progress status is 'completed'; 'records incompleteness' = skipped_files > 0 in the stored manifest.json (and in the manifest handed to the synchronous caller)")
	c.Assume("the backup destination backend is created inside NewManager; it is wrapped by swapping the unexported field through reflect (injection only)")
	c.Assume("the SQLite database(s) and arc.toml are real files backed up / restored through BackupOptions / RestoreOptions; they are not data or Iceberg metadata files in the property's sense, so what happens to them is counted, not judged; with RestoreData=false nothing of the property applies")

	scratch := vlib.TempDir("c13")
	defer os.RemoveAll(scratch)
	// arc stages every copy through os.CreateTemp(""): keep that on the scratch fs too
	tmp := filepath.Join(scratch, "tmp")
	if err := os.MkdirAll(tmp, 0o755); err != nil {
		panic(err)
	}
	os.Setenv("TMPDIR", tmp)

	if c.Replay != "" {
		var d struct {
			Seed     int64    `json:"seed"`
			Tree     int      `json:"tree"`
			Scenario Scenario `json:"scenario"`
		}
		if err := vlib.LoadReplay(c.Replay, &d); err != nil {
			panic(err)
		}
		c.Seed = d.Seed
		c.Floor(0)
		for _, f := range runTree(c, scratch, d.Tree, &d.Scenario) {
			fmt.Printf("replay observed: %s\n  %s\n", f.Sig, vlib.JSON(f.Detail))
			c.Violation(f.Sig, f.Detail)
		}
		return
	}

	nTrees := c.N(40, 1000)
	results := make([][]finding, nTrees)
	var wg sync.WaitGroup
	sem := make(chan struct{}, 14)
	var pmu sync.Mutex
	var panicked any
	for i := 0; i < nTrees; i++ {
		wg.Add(1)
		sem <- struct{}{}
		go func(i int) {
			defer wg.Done()
			defer func() { <-sem }()
			defer func() {
				if r := recover(); r != nil {
					pmu.Lock()
					if panicked == nil {
						panicked = fmt.Sprintf("tree %d: %v", i, r)
					}
					pmu.Unlock()
				}
			}()
			results[i] = runTree(c, scratch, i, nil)
		}(i)
	}
	wg.Wait()
	if panicked != nil {
		panic(panicked)
	}
	// report in tree order so that the kept replay is the same at every run
	for _, fs := range results {
		for _, f := range fs {
			c.Violation(f.Sig, f.Detail)
		}
	}
	c.Floor(c.N(1500, 40000))
}
