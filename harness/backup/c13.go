package main

// C13: restoring a completed backup into empty storage reproduces every backed-up
// data file and Iceberg metadata file byte-for-byte at its original path; if any
// backed-up file cannot be restored the restore does not report success; a backup
// that skipped unreadable files records that it is incomplete.
//
// The real backup.Manager runs over faultfs-wrapped LocalBackends. Ground truth
// is the generator's path -> sha256 map; the state after each operation is read
// by walking the real directories, never through arc code.

import (
	"bytes"
	"context"
	"encoding/json"
	"fmt"
	"math/rand/v2"
	"os"
	"path/filepath"
	"reflect"
	"sort"
	"strings"
	"sync"
	"unsafe"

	"github.com/basekick-labs/arc/internal/backup"
	"github.com/basekick-labs/arc/internal/storage"
	"github.com/basekick-labs/arc/internal/zzverif/vlib"
	"github.com/rs/zerolog"
)

// Scenario is one evaluated case on one tree; it is also the replay unit.
type Scenario struct {
	Kind          string  `json:"kind"` // roundtrip | restore_fault | backup_fault
	BackupFaults  []Fault `json:"backup_faults"`
	RestoreFaults []Fault `json:"restore_faults"`
}

type finding struct {
	Sig    string
	Detail map[string]any
}

// channels is every way an operation tells its caller how it went.
type channels struct {
	Err            string `json:"returned_error"`
	ResultNil      bool   `json:"result_is_nil"`
	Status         string `json:"progress_status"`
	ProgressError  string `json:"progress_error"`
	TotalFiles     int64  `json:"progress_total_files"`
	ProcessedFiles int64  `json:"progress_processed_files"`
	SkippedFiles   int64  `json:"progress_skipped_files"`
	ManifestSkips  int64  `json:"result_manifest_skipped_files"`
}

// success: the operation told at least one kind of caller that it succeeded:
// the synchronous caller (nil error) or the operator polling /status
// (status "completed").
func (ch channels) success() bool { return ch.Err == "" || ch.Status == "completed" }

// storedManifest is the harness' own reading of <id>/manifest.json.
type storedManifest struct {
	BackupID       string `json:"backup_id"`
	TotalFiles     int64  `json:"total_files"`
	TotalSizeBytes int64  `json:"total_size_bytes"`
	SkippedFiles   int64  `json:"skipped_files"`
	Databases      []struct {
		Name         string `json:"name"`
		FileCount    int    `json:"file_count"`
		SizeBytes    int64  `json:"size_bytes"`
		Measurements []struct {
			Name      string `json:"name"`
			FileCount int    `json:"file_count"`
			SizeBytes int64  `json:"size_bytes"`
		} `json:"measurements"`
	} `json:"databases"`
}

type backupOutcome struct {
	Ch        channels
	Dir       string            // backup destination directory
	ID        string            // backup id ("" if no backup directory was created)
	Store     map[string]string // original path -> sha256 of <id>/data/<path>
	Manifest  *storedManifest   // nil if no manifest.json was written
	Fired     []Call
	WarnLines []string
}

type restoreOutcome struct {
	Ch        channels
	Target    map[string]string // path -> sha256 in the restore target
	Fired     []Call
	WarnLines []string
}

type env struct {
	c       *vlib.Ctx
	scratch string
	t       *tree
	srcDir  string
	seq     int
}

func (e *env) fresh(prefix string) string {
	e.seq++
	d := filepath.Join(e.scratch, fmt.Sprintf("t%d-%s-%d", e.t.Index, prefix, e.seq))
	if err := os.MkdirAll(d, 0o755); err != nil {
		panic(err)
	}
	return d
}

// setBackupStorage replaces the manager's backup destination backend. NewManager
// builds that LocalBackend itself from ManagerConfig.BackupPath and offers no
// exported way to supply one, so the unexported field is swapped for a faultfs
// wrapper around the backend NewManager created. Injection only: nothing is
// observed through this.
func setBackupStorage(m *backup.Manager, wrap func(storage.Backend) storage.Backend) {
	v := reflect.ValueOf(m).Elem().FieldByName("backupStorage")
	if !v.IsValid() {
		panic("backup.Manager has no field backupStorage: harness needs updating")
	}
	p := reflect.NewAt(v.Type(), unsafe.Pointer(v.UnsafeAddr())).Elem()
	old, ok := p.Interface().(storage.Backend)
	if !ok || old == nil {
		panic("backup.Manager.backupStorage is not a storage.Backend")
	}
	p.Set(reflect.ValueOf(wrap(old)))
}

// backupKey maps a backup-store path "<id>/<rest>" to the fault key "<rest>".
func backupKey(p string) string {
	p = filepath.ToSlash(p)
	if i := strings.IndexByte(p, '/'); i >= 0 {
		return p[i+1:]
	}
	return p
}

func warnLines(buf *bytes.Buffer) []string {
	var out []string
	for _, l := range strings.Split(buf.String(), "\n") {
		if l != "" && len(out) < 6 {
			out = append(out, l)
		}
	}
	return out
}

func progressInto(ch *channels, p *backup.Progress) {
	if p == nil {
		return
	}
	ch.Status, ch.ProgressError = p.Status, p.Error
	ch.TotalFiles, ch.ProcessedFiles, ch.SkippedFiles = p.TotalFiles, p.ProcessedFiles, p.SkippedFiles
}

func (e *env) countCalls(store string, fs *FS) {
	var n int64
	for _, v := range fs.Calls() {
		n += v
	}
	e.c.Count("storage_calls_logged", n)
	for _, f := range fs.Fired() {
		op := "read"
		switch f.Op {
		case "Write", "WriteReader", "AppendReader":
			op = "write"
		case "List", "ListObjects":
			op = "list"
		}
		e.c.Count("faults_fired_"+store+"_"+op, 1)
	}
}

// runBackup runs CreateBackup of the tree into a fresh backup directory.
func (e *env) runBackup(faults []Fault) *backupOutcome {
	out := &backupOutcome{Dir: e.fresh("bk")}
	var logbuf bytes.Buffer
	logger := zerolog.New(&logbuf).Level(zerolog.WarnLevel)
	inner, err := storage.NewLocalBackend(e.srcDir, zerolog.Nop())
	if err != nil {
		panic(err)
	}
	src := newFS("source", inner, nil)
	src.Arm(faults)
	mgr, err := backup.NewManager(&backup.ManagerConfig{DataStorage: src, BackupPath: out.Dir, Logger: logger})
	if err != nil {
		panic(err)
	}
	var bfs *FS
	setBackupStorage(mgr, func(old storage.Backend) storage.Backend {
		bfs = newFS("backup", old, backupKey)
		bfs.Arm(faults)
		return bfs
	})
	res, berr := mgr.CreateBackup(context.Background(), backup.BackupOptions{})
	if berr != nil {
		out.Ch.Err = berr.Error()
	}
	out.Ch.ResultNil = res == nil
	if res != nil && res.Manifest != nil {
		out.Ch.ManifestSkips = res.Manifest.SkippedFiles
		out.ID = res.Manifest.BackupID
	}
	progressInto(&out.Ch, mgr.GetProgress())
	out.Fired = append(src.Fired(), bfs.Fired()...)
	out.WarnLines = warnLines(&logbuf)
	e.countCalls("source", src)
	e.countCalls("backup", bfs)
	e.c.Count("backups_run", 1)

	// what is really in the backup destination
	if out.ID == "" {
		ents, _ := os.ReadDir(out.Dir)
		for _, d := range ents {
			if d.IsDir() {
				out.ID = d.Name()
			}
		}
	}
	out.Store = map[string]string{}
	if out.ID != "" {
		st, err := digest(filepath.Join(out.Dir, out.ID, "data"))
		if err != nil {
			panic(err)
		}
		out.Store = st
		if b, err := os.ReadFile(filepath.Join(out.Dir, out.ID, "manifest.json")); err == nil {
			var sm storedManifest
			if json.Unmarshal(b, &sm) == nil {
				out.Manifest = &sm
			}
		}
	}
	return out
}

// runRestore restores backup id from dir into a fresh, empty target.
func (e *env) runRestore(dir, id string, faults []Fault) *restoreOutcome {
	out := &restoreOutcome{}
	tdir := e.fresh("tg")
	defer os.RemoveAll(tdir)
	var logbuf bytes.Buffer
	logger := zerolog.New(&logbuf).Level(zerolog.WarnLevel)
	inner, err := storage.NewLocalBackend(tdir, zerolog.Nop())
	if err != nil {
		panic(err)
	}
	tgt := newFS("target", inner, nil)
	tgt.Arm(faults)
	mgr, err := backup.NewManager(&backup.ManagerConfig{DataStorage: tgt, BackupPath: dir, Logger: logger})
	if err != nil {
		panic(err)
	}
	var bfs *FS
	setBackupStorage(mgr, func(old storage.Backend) storage.Backend {
		bfs = newFS("backup", old, backupKey)
		bfs.Arm(faults)
		return bfs
	})
	res, rerr := mgr.RestoreBackup(context.Background(), backup.RestoreOptions{BackupID: id, RestoreData: true})
	if rerr != nil {
		out.Ch.Err = rerr.Error()
	}
	out.Ch.ResultNil = res == nil
	if res != nil && res.Manifest != nil {
		out.Ch.ManifestSkips = res.Manifest.SkippedFiles
	}
	progressInto(&out.Ch, mgr.GetProgress())
	out.Fired = append(tgt.Fired(), bfs.Fired()...)
	out.WarnLines = warnLines(&logbuf)
	e.countCalls("target", tgt)
	e.countCalls("backup", bfs)
	e.c.Count("restores_run", 1)
	tg, err := digest(tdir)
	if err != nil {
		panic(err)
	}
	out.Target = tg
	return out
}

func faultOn(faults []Fault, store, op, key string) bool {
	for _, f := range faults {
		if f.Store == store && f.Op == op && (op == "list" || f.Key == key) {
			return true
		}
	}
	return false
}

func head(s []string, n int) []string {
	if len(s) > n {
		return s[:n]
	}
	return s
}

// checkBackup judges a backup outcome against the source ground truth. It
// returns the sorted list of required source files the backup does not hold
// intact (only meaningful when the backup counts as completed).
func (e *env) checkBackup(sc Scenario, bo *backupOutcome, add func(finding)) (completed bool, missing []string) {
	t := e.t
	// A backup is "completed" when it told a caller so, or when its manifest
	// exists in the destination (which is what makes it listable and restorable).
	completed = bo.Ch.success() || bo.Manifest != nil
	if !completed {
		e.c.Count("backups_reported_failed", 1)
		return false, nil
	}
	e.c.Count("backups_completed", 1)
	var altered []string
	for _, p := range t.Req {
		got, ok := bo.Store[p]
		switch {
		case !ok:
			missing = append(missing, p)
		case got != t.By[p].Sum:
			altered = append(altered, p)
			missing = append(missing, p)
		}
	}
	e.c.Count("backup_files_compared", int64(len(t.Req)))
	base := map[string]any{
		"seed": e.c.Seed, "tree": t.Index, "scenario": sc, "backup_channels": bo.Ch,
		"stored_manifest": bo.Manifest, "injected_calls": head2(bo.Fired), "arc_warnings": bo.WarnLines,
		"source_files": len(t.Req), "files_in_backup": len(bo.Store),
	}
	if len(altered) > 0 {
		d := clone(base)
		d["altered"] = head(altered, 5)
		add(finding{"completed backup holds different bytes than the source file", d})
	}
	if len(missing) == 0 {
		return completed, nil
	}
	recorded := bo.Manifest != nil && bo.Manifest.SkippedFiles > 0
	if bo.Ch.Err == "" && bo.Ch.ManifestSkips == 0 {
		recorded = false // the synchronous caller was handed a manifest without the marker
	}
	if recorded {
		e.c.Count("backups_incomplete_and_recorded", 1)
		return completed, missing
	}
	// classify by why the first missing file is missing
	p := missing[0]
	kind := t.By[p].Kind
	var sig string
	switch {
	case faultOn(sc.BackupFaults, "source", "read", p):
		sig = "completed backup skipped an unreadable source file but neither result nor manifest records it as incomplete"
	case faultOn(sc.BackupFaults, "backup", "write", "data/"+p):
		sig = "backup completed although a file could not be written to the backup store"
	case faultOn(sc.BackupFaults, "source", "list", ""):
		sig = "backup completed although listing the source failed"
	default:
		sig = "fault-free source file (" + kind + ") is not in the completed backup and the backup is not recorded as incomplete"
	}
	d := clone(base)
	d["missing_from_backup"] = head(missing, 5)
	d["missing_count"] = len(missing)
	add(finding{sig, d})
	return completed, missing
}

// checkManifestInventory: fault-free backups only. The manifest has no file
// list; its inventory is the per-database/measurement counts and sizes.
func (e *env) checkManifestInventory(sc Scenario, bo *backupOutcome, add func(finding)) {
	if bo.Manifest == nil {
		return
	}
	type agg struct {
		n  int
		sz int64
	}
	want := map[string]*agg{}
	var total agg
	for _, f := range e.t.Files {
		if !strings.HasSuffix(f.Path, ".parquet") {
			continue
		}
		db, meas := firstTwo(f.Path)
		k := db + "\x00" + meas
		if want[k] == nil {
			want[k] = &agg{}
		}
		want[k].n++
		want[k].sz += int64(f.Size)
		total.n++
		total.sz += int64(f.Size)
	}
	got := map[string]*agg{}
	for _, d := range bo.Manifest.Databases {
		for _, m := range d.Measurements {
			got[d.Name+"\x00"+m.Name] = &agg{m.FileCount, m.SizeBytes}
		}
	}
	bad := int64(total.n) != bo.Manifest.TotalFiles || total.sz != bo.Manifest.TotalSizeBytes || len(got) != len(want)
	for k, w := range want {
		if g := got[k]; g == nil || *g != *w {
			bad = true
		}
	}
	if bad {
		add(finding{"fault-free backup manifest inventory (file counts / sizes per database and measurement) differs from the source data files", map[string]any{
			"seed": e.c.Seed, "tree": e.t.Index, "scenario": sc, "stored_manifest": bo.Manifest,
			"want_total_files": total.n, "want_total_bytes": total.sz,
		}})
	}
}

// checkRestore judges a restore outcome: every file the backup holds must be in
// the target, byte-identical, at its original path, or the restore must not
// have reported success on any channel.
func (e *env) checkRestore(sc Scenario, bo *backupOutcome, ro *restoreOutcome, add func(finding)) {
	var bad []string
	paths := make([]string, 0, len(bo.Store))
	for p := range bo.Store {
		paths = append(paths, p)
	}
	sort.Strings(paths)
	good := 0
	for _, p := range paths {
		if got, ok := ro.Target[p]; !ok || got != bo.Store[p] {
			bad = append(bad, p)
		} else {
			good++
		}
	}
	e.c.Count("restore_files_compared", int64(len(paths)))
	succ := ro.Ch.success()
	if succ {
		e.c.Count("restores_reported_success", 1)
	} else {
		e.c.Count("restores_reported_failure", 1)
	}
	base := map[string]any{
		"seed": e.c.Seed, "tree": e.t.Index, "scenario": sc, "restore_channels": ro.Ch,
		"injected_calls": head2(ro.Fired), "arc_warnings": ro.WarnLines,
		"files_in_backup": len(bo.Store), "files_intact_in_target": good,
	}
	if succ && len(bad) > 0 {
		e.c.Count("restores_success_with_missing_files", 1)
		p := bad[0]
		_, present := ro.Target[p]
		var why string
		switch {
		case faultOn(sc.RestoreFaults, "backup", "read", "manifest.json"):
			why = "manifest read error"
		case faultOn(sc.RestoreFaults, "backup", "list", ""):
			why = "list error on backup store"
		case faultOn(sc.RestoreFaults, "target", "write", p):
			why = "write error on target"
		case faultOn(sc.RestoreFaults, "backup", "read", "data/"+p):
			why = "read error from backup store"
		case present:
			why = "no fault on it; restored bytes differ"
		default:
			why = "no fault on it; absent at its original path"
		}
		d := clone(base)
		d["not_restored"] = head(bad, 5)
		d["not_restored_count"] = len(bad)
		d["first_present_in_target"] = present
		add(finding{"restore reported success although a file failed to restore (" + why + ")", d})
	}
	// a successful restore cannot have restored more files than the backup holds
	// (it would be claiming files the backup skipped)
	if succ && ro.Ch.ProcessedFiles > int64(len(bo.Store)) {
		d := clone(base)
		add(finding{"restore reported success and counts more restored files than the backup holds", d})
	}
}

func clone(m map[string]any) map[string]any {
	o := make(map[string]any, len(m)+4)
	for k, v := range m {
		o[k] = v
	}
	return o
}

func head2(c []Call) []Call {
	if len(c) > 6 {
		return c[:6]
	}
	return c
}

func pickMode(r *rand.Rand) string {
	if r.IntN(3) == 0 {
		return "partial"
	}
	return "error"
}

func scenarioKey(t *tree, sc Scenario) string {
	return t.fingerprint() + "|" + vlib.JSON(sc)
}

// runScenario executes one scenario. base, when non-nil, is a fault-free backup
// of this tree to reuse for restore-only scenarios.
func (e *env) runScenario(sc Scenario, base *backupOutcome, add func(finding)) *backupOutcome {
	e.c.Eval()
	bo := base
	own := false
	if bo == nil || len(sc.BackupFaults) > 0 {
		bo = e.runBackup(sc.BackupFaults)
		own = true
		completed, missing := e.checkBackup(sc, bo, add)
		if len(sc.BackupFaults) == 0 {
			e.checkManifestInventory(sc, bo, add)
		}
		if len(sc.BackupFaults) == 0 || len(bo.Fired) > 0 {
			e.c.Nontrivial(scenarioKey(e.t, sc))
		}
		if !completed || bo.Manifest == nil {
			// nothing restorable was produced; a restore attempt must fail too
			if bo.ID != "" {
				ro := e.runRestore(bo.Dir, bo.ID, nil)
				e.checkRestore(sc, bo, ro, add)
			}
			if sc.Kind != "roundtrip" {
				os.RemoveAll(bo.Dir)
			}
			return bo
		}
		if len(missing) > 0 {
			e.c.Count("restores_of_incomplete_backup", 1)
		}
	}
	ro := e.runRestore(bo.Dir, bo.ID, sc.RestoreFaults)
	e.checkRestore(sc, bo, ro, add)
	if len(sc.RestoreFaults) > 0 && len(ro.Fired) > 0 {
		e.c.Nontrivial(scenarioKey(e.t, sc))
	}
	if own && sc.Kind != "roundtrip" {
		os.RemoveAll(bo.Dir)
	}
	return bo
}

// scenariosFor enumerates the fault scenarios of one tree, given the files its
// fault-free backup holds.
func scenariosFor(r *rand.Rand, files []string) []Scenario {
	var out []Scenario
	n := len(files)
	// (b) restore: every file once per failure kind, then list/manifest, then subsets
	for _, p := range files {
		out = append(out,
			Scenario{Kind: "restore_fault", RestoreFaults: []Fault{{Store: "backup", Op: "read", Key: "data/" + p, Mode: pickMode(r)}}},
			Scenario{Kind: "restore_fault", RestoreFaults: []Fault{{Store: "target", Op: "write", Key: p, Mode: pickMode(r)}}})
	}
	out = append(out,
		Scenario{Kind: "restore_fault", RestoreFaults: []Fault{{Store: "backup", Op: "list", Mode: "error"}}},
		Scenario{Kind: "restore_fault", RestoreFaults: []Fault{{Store: "backup", Op: "read", Key: "manifest.json", Mode: "error"}}})
	for s := 0; s < 5; s++ {
		k := 1 + r.IntN(max(1, n/3))
		var fs []Fault
		for _, i := range r.Perm(n)[:k] {
			if r.IntN(2) == 0 {
				fs = append(fs, Fault{Store: "backup", Op: "read", Key: "data/" + files[i], Mode: pickMode(r)})
			} else {
				fs = append(fs, Fault{Store: "target", Op: "write", Key: files[i], Mode: pickMode(r)})
			}
		}
		out = append(out, Scenario{Kind: "restore_fault", RestoreFaults: fs})
	}
	// (c) backup: every file unreadable once, then subsets around the 10 % skip
	// ceiling, then list / backup-store write failures
	for _, p := range files {
		out = append(out, Scenario{Kind: "backup_fault", BackupFaults: []Fault{{Store: "source", Op: "read", Key: p, Mode: pickMode(r)}}})
	}
	tenth := n / 10
	for _, k := range []int{2, tenth, tenth + 1, 1 + r.IntN(max(1, n/3)), 1 + r.IntN(max(1, tenth))} {
		if k < 1 {
			k = 1
		}
		if k > n {
			k = n
		}
		var fs []Fault
		for _, i := range r.Perm(n)[:k] {
			fs = append(fs, Fault{Store: "source", Op: "read", Key: files[i], Mode: pickMode(r)})
		}
		out = append(out, Scenario{Kind: "backup_fault", BackupFaults: fs})
	}
	out = append(out, Scenario{Kind: "backup_fault", BackupFaults: []Fault{{Store: "source", Op: "list", Mode: "error"}}})
	for s := 0; s < 3; s++ {
		out = append(out, Scenario{Kind: "backup_fault", BackupFaults: []Fault{{Store: "backup", Op: "write", Key: "data/" + files[r.IntN(n)], Mode: pickMode(r)}}})
	}
	out = append(out, Scenario{Kind: "backup_fault", BackupFaults: []Fault{{Store: "backup", Op: "write", Key: "manifest.json", Mode: "error"}}})
	// a skipped file at backup time followed by a failing restore
	i, j := r.IntN(n), r.IntN(n)
	out = append(out, Scenario{Kind: "backup_fault",
		BackupFaults:  []Fault{{Store: "source", Op: "read", Key: files[i], Mode: "error"}},
		RestoreFaults: []Fault{{Store: "target", Op: "write", Key: files[j], Mode: "error"}}})
	return out
}

// runTree generates tree idx and evaluates all of its scenarios (or only the
// given one, for replay).
func runTree(c *vlib.Ctx, scratch string, idx int, only *Scenario) []finding {
	r := c.Rand(fmt.Sprintf("tree-%d", idx))
	var fnd []finding
	seen := map[string]bool{}
	add := func(f finding) {
		if !seen[f.Sig] {
			seen[f.Sig] = true
			fnd = append(fnd, f)
		}
	}
	srcDir := filepath.Join(scratch, fmt.Sprintf("t%d-src", idx))
	t, err := genTree(r, idx, srcDir)
	if err != nil {
		panic(err)
	}
	e := &env{c: c, scratch: scratch, t: t, srcDir: srcDir}
	defer func() {
		ents, _ := os.ReadDir(scratch)
		for _, d := range ents {
			if strings.HasPrefix(d.Name(), fmt.Sprintf("t%d-", idx)) {
				os.RemoveAll(filepath.Join(scratch, d.Name()))
			}
		}
	}()
	c.Count("trees", 1)
	c.Count("source_files_generated", int64(len(t.Files)))
	c.Count("source_data_and_metadata_files", int64(len(t.Req)))

	if only != nil {
		e.runScenario(*only, nil, add)
		return fnd
	}

	// (a) fault-free round trip
	base := e.runScenario(Scenario{Kind: "roundtrip"}, nil, add)
	if idx < 4 {
		c.Sample(map[string]any{"tree": idx, "files": len(t.Files), "data_and_metadata": len(t.Req),
			"in_backup": len(base.Store), "example_paths": head(t.Req, 3), "backup_channels": base.Ch})
	}
	if base.Manifest == nil || len(base.Store) == 0 {
		return fnd // already reported by checkBackup
	}
	files := make([]string, 0, len(base.Store))
	for p := range base.Store {
		files = append(files, p)
	}
	sort.Strings(files)
	for _, sc := range scenariosFor(r, files) {
		e.runScenario(sc, base, add)
	}
	return fnd
}

func checkC13(c *vlib.Ctx) {
	c.Rule("random storage trees (2-3 databases incl. hostile names such as 'data' or a backup-id look-alike, 1-3 measurements each incl. one named 'metadata', day/hour directories with 1-3 parquet-named files, compacted day files, Iceberg table directories with metadata.json/avro/version-hint/puffin files and Iceberg-owned parquet, hidden/staging/text files; sizes 0..64 KiB, unique content) are backed up and restored by the real backup.Manager over fault-injecting LocalBackend wrappers. Per tree: a fault-free round trip; a restore with a read failure from the backup store and a write failure on the target on EVERY backed-up file once, list and manifest failures, 5 random subsets; a backup with a source read failure on EVERY file once, 5 subsets around the skip ceiling, list failure, backup-store write failures; each completed backup is restored into an EMPTY target. non-trivial = distinct (tree, scenario) pairs in which the injected fault really fired (or the fault-free round trip)")
	c.Assume("ground truth is the generator's path->sha256 map; backup and target contents are read by walking the real directories")
	c.Assume("'reports success' = RestoreBackup/CreateBackup returned a nil error OR the published progress status is 'completed'; 'records incompleteness' = skipped_files > 0 in the stored manifest.json (and in the manifest handed to the synchronous caller)")
	c.Assume("the backup destination backend is created inside NewManager; it is wrapped by swapping the unexported field through reflect (injection only)")
	c.Assume("SQLite metadata and arc.toml backup/restore are outside the property and switched off")

	scratch := vlib.TempDir("c13")
	defer os.RemoveAll(scratch)
	// arc stages every copy through os.CreateTemp(""): keep that on the scratch fs too
	tmp := filepath.Join(scratch, "tmp")
	if err := os.MkdirAll(tmp, 0o755); err != nil {
		panic(err)
	}
	os.Setenv("TMPDIR", tmp)

	if c.Replay != "" {
		var d struct {
			Seed     int64    `json:"seed"`
			Tree     int      `json:"tree"`
			Scenario Scenario `json:"scenario"`
		}
		if err := vlib.LoadReplay(c.Replay, &d); err != nil {
			panic(err)
		}
		c.Seed = d.Seed
		c.Floor(0)
		for _, f := range runTree(c, scratch, d.Tree, &d.Scenario) {
			fmt.Printf("replay observed: %s\n  %s\n", f.Sig, vlib.JSON(f.Detail))
			c.Violation(f.Sig, f.Detail)
		}
		return
	}

	nTrees := c.N(40, 1000)
	results := make([][]finding, nTrees)
	var wg sync.WaitGroup
	sem := make(chan struct{}, 14)
	var pmu sync.Mutex
	var panicked any
	for i := 0; i < nTrees; i++ {
		wg.Add(1)
		sem <- struct{}{}
		go func(i int) {
			defer wg.Done()
			defer func() { <-sem }()
			defer func() {
				if r := recover(); r != nil {
					pmu.Lock()
					if panicked == nil {
						panicked = fmt.Sprintf("tree %d: %v", i, r)
					}
					pmu.Unlock()
				}
			}()
			results[i] = runTree(c, scratch, i, nil)
		}(i)
	}
	wg.Wait()
	if panicked != nil {
		panic(panicked)
	}
	// report in tree order so that the kept replay is the same at every run
	for _, fs := range results {
		for _, f := range fs {
			c.Violation(f.Sig, f.Detail)
		}
	}
	c.Floor(c.N(1500, 40000))
}
