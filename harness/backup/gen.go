package main

// Random storage trees: ground truth for C13.

import (
	"crypto/sha256"
	"encoding/binary"
	"encoding/hex"
	"fmt"
	"io/fs"
	"math/rand/v2"
	"os"
	"path/filepath"
	"sort"
	"strings"
)

// File kinds. "data" and "iceberg_meta" are what the property covers; "other"
// files (hidden files, staging leftovers, text files...) may or may not be
// backed up and are never required by the oracle.
const (
	kindData    = "data"
	kindIceMeta = "iceberg_meta"
	kindOther   = "other"
)

type genFile struct {
	Path string
	Kind string
	Size int
	Sum  string // sha256 hex of the content
}

type tree struct {
	Index int
	Files []genFile          // sorted by path
	By    map[string]genFile // path -> file
	Req   []string           // sorted paths of data + iceberg metadata files
}

var (
	dbPool   = []string{"prod", "metrics_eu", "db-7", "telemetry", "Default", "a", "data", "backup-20260101-000000-deadbeef"}
	measPool = []string{"cpu", "mem", "disk_io", "http.requests", "sensor-01", "metadata", "data", "m", "manifest.json"}
)

func hexid(r *rand.Rand, n int) string {
	const hexd = "0123456789abcdef"
	b := make([]byte, n)
	for i := range b {
		b[i] = hexd[r.IntN(16)]
	}
	return string(b)
}

func pickSize(r *rand.Rand) int {
	switch x := r.IntN(100); {
	case x < 4:
		return 0
	case x < 8:
		return 1 + r.IntN(11)
	case x < 55:
		return 12 + r.IntN(600)
	case x < 85:
		return 600 + r.IntN(8<<10)
	case x < 97:
		return (8 << 10) + r.IntN(56<<10)
	default:
		return 64 << 10
	}
}

func pickDistinct(r *rand.Rand, pool []string, n int) []string {
	p := r.Perm(len(pool))
	out := make([]string, 0, n)
	for i := 0; i < n && i < len(p); i++ {
		out = append(out, pool[p[i]])
	}
	return out
}

// content is unique per (tree, file index): the first bytes carry the ids, the
// rest is PRNG output.
func content(r *rand.Rand, treeIdx, fileIdx, size int) []byte {
	b := make([]byte, size)
	for i := 0; i+8 <= size; i += 8 {
		binary.LittleEndian.PutUint64(b[i:], r.Uint64())
	}
	for i := size - size%8; i < size; i++ {
		b[i] = byte(r.UintN(256))
	}
	var id [12]byte
	copy(id[:4], "C13\x00")
	binary.BigEndian.PutUint32(id[4:], uint32(treeIdx))
	binary.BigEndian.PutUint32(id[8:], uint32(fileIdx))
	copy(b, id[:])
	return b
}

// genTree writes a random tree under root and returns its ground truth.
func genTree(r *rand.Rand, idx int, root string) (*tree, error) {
	type ent struct{ path, kind string }
	var ents []ent
	seen := map[string]bool{}
	add := func(p, k string) {
		if !seen[p] {
			seen[p] = true
			ents = append(ents, ent{p, k})
		}
	}
	dbs := pickDistinct(r, dbPool, 2+r.IntN(2))
	type dm struct{ db, meas string }
	var pairs []dm
	for _, db := range dbs {
		for _, meas := range pickDistinct(r, measPool, 1+r.IntN(3)) {
			pairs = append(pairs, dm{db, meas})
			nDays := 1 + r.IntN(2)
			for d := 0; d < nDays; d++ {
				y, mo, day := 2024+r.IntN(3), 1+r.IntN(12), 1+r.IntN(28)
				if r.IntN(3) == 0 {
					// a compacted day file next to the hour directories
					add(fmt.Sprintf("%s/%s/%04d/%02d/%02d/%s_%04d%02d%02d_compacted.parquet", db, meas, y, mo, day, meas, y, mo, day), kindData)
				}
				nHours := 1 + r.IntN(3)
				for _, h := range r.Perm(24)[:nHours] {
					nf := 1 + r.IntN(3)
					for k := 0; k < nf; k++ {
						add(fmt.Sprintf("%s/%s/%04d/%02d/%02d/%02d/%s_%04d%02d%02d_%02d%02d%02d_%s.parquet",
							db, meas, y, mo, day, h, meas, y, mo, day, h, r.IntN(60), r.IntN(60), hexid(r, 6)), kindData)
					}
					if r.IntN(6) == 0 {
						add(fmt.Sprintf("%s/%s/%04d/%02d/%02d/%02d/.tmp_%s", db, meas, y, mo, day, h, hexid(r, 6)), kindOther)
					}
					if r.IntN(8) == 0 {
						add(fmt.Sprintf("%s/%s/%04d/%02d/%02d/%02d/%s_upload.parquet.part", db, meas, y, mo, day, h, meas), kindOther)
					}
				}
			}
		}
		if r.IntN(3) == 0 {
			add(db+"/README.txt", kindOther)
		}
	}
	// Iceberg tables for one or two (db, measurement) pairs, laid out like arc's
	// exporter does: arc_<db>.db/<measurement>/metadata/*
	nIce := 1 + r.IntN(2)
	for _, pi := range r.Perm(len(pairs)) {
		if nIce == 0 {
			break
		}
		nIce--
		p := pairs[pi]
		base := fmt.Sprintf("arc_%s.db/%s/metadata/", p.db, p.meas)
		u := hexid(r, 8) + "-" + hexid(r, 4)
		nv := 1 + r.IntN(3)
		for v := 0; v < nv; v++ {
			add(fmt.Sprintf("%s%05d-%s.metadata.json", base, v, u), kindIceMeta)
			add(fmt.Sprintf("%sv%d.metadata.json", base, v+1), kindIceMeta)
			add(fmt.Sprintf("%ssnap-%d-1-%s.avro", base, 1000+r.IntN(9000), u), kindIceMeta)
			add(fmt.Sprintf("%s%s-m%d.avro", base, u, v), kindIceMeta)
		}
		add(base+"version-hint.text", kindIceMeta)
		if r.IntN(3) == 0 {
			add(fmt.Sprintf("%s%s.puffin", base, hexid(r, 8)), kindIceMeta)
		}
		if r.IntN(2) == 0 {
			// Iceberg-owned data file: parquet, so a data file for the backup
			add(fmt.Sprintf("arc_%s.db/%s/data/00000-0-%s.parquet", p.db, p.meas, u), kindData)
		}
	}
	if r.IntN(4) == 0 {
		add("_compaction/state.json", kindOther)
	}
	if r.IntN(4) == 0 {
		add("wal/arc-000001.wal", kindOther)
	}

	t := &tree{Index: idx, By: map[string]genFile{}}
	for i, e := range ents {
		size := pickSize(r)
		b := content(r, idx, i, size)
		full := filepath.Join(root, filepath.FromSlash(e.path))
		if err := os.MkdirAll(filepath.Dir(full), 0o755); err != nil {
			return nil, err
		}
		if err := os.WriteFile(full, b, 0o644); err != nil {
			return nil, err
		}
		h := sha256.Sum256(b)
		gf := genFile{Path: e.path, Kind: e.kind, Size: size, Sum: hex.EncodeToString(h[:])}
		t.Files = append(t.Files, gf)
		t.By[e.path] = gf
		if e.kind != kindOther {
			t.Req = append(t.Req, e.path)
		}
	}
	sort.Slice(t.Files, func(i, j int) bool { return t.Files[i].Path < t.Files[j].Path })
	sort.Strings(t.Req)
	return t, nil
}

// digest walks a real directory (independently of any storage backend) and
// returns slash-separated relative path -> sha256 hex for every regular file.
func digest(root string) (map[string]string, error) {
	out := map[string]string{}
	err := filepath.WalkDir(root, func(p string, d fs.DirEntry, err error) error {
		if err != nil {
			if os.IsNotExist(err) {
				return nil
			}
			return err
		}
		if d.IsDir() {
			return nil
		}
		b, err := os.ReadFile(p)
		if err != nil {
			return err
		}
		rel, err := filepath.Rel(root, p)
		if err != nil {
			return err
		}
		h := sha256.Sum256(b)
		out[filepath.ToSlash(rel)] = hex.EncodeToString(h[:])
		return nil
	})
	return out, err
}

func (t *tree) fingerprint() string {
	h := sha256.New()
	for _, f := range t.Files {
		fmt.Fprintf(h, "%s\x00%s\n", f.Path, f.Sum)
	}
	return hex.EncodeToString(h.Sum(nil)[:8])
}

// firstTwo is the harness' own reading of the documented path format
// {database}/{measurement}/... used for the manifest inventory comparison.
func firstTwo(p string) (string, string) {
	parts := strings.SplitN(p, "/", 3)
	if len(parts) >= 2 {
		return parts[0], parts[1]
	}
	return parts[0], "unknown"
}
