// Package vpq reads Parquet files with arrow-go's parquet/file + pqarrow readers
// (independent of DuckDB and of arc's own writer) for the storage-level oracles.
package vpq

import (
	"context"
	"fmt"
	"io/fs"
	"os"
	"path/filepath"
	"sort"
	"strings"

	"github.com/apache/arrow-go/v18/arrow"
	"github.com/apache/arrow-go/v18/arrow/array"
	"github.com/apache/arrow-go/v18/arrow/memory"
	"github.com/apache/arrow-go/v18/parquet/file"
	"github.com/apache/arrow-go/v18/parquet/pqarrow"
)

// File is the decoded content of one Parquet file.
type File struct {
	Rel    string // path relative to the root, slash separated
	Abs    string
	Cols   []string          // column names in file order
	Types  map[string]string // column -> arrow type string
	Meta   map[string]string // key/value metadata
	Rows   []map[string]any  // one map per row; absent key never happens, null = nil
	NumRow int
}

// Value kinds returned in Rows: int64, uint64, float64, string, bool, []byte,
// nil, and for timestamps int64 microseconds (TimestampUS=true marks them).

// ReadFile decodes one Parquet file.
func ReadFile(abs, rel string) (*File, error) {
	rdr, err := file.OpenParquetFile(abs, false)
	if err != nil {
		return nil, fmt.Errorf("open %s: %w", rel, err)
	}
	defer rdr.Close()
	fr, err := pqarrow.NewFileReader(rdr, pqarrow.ArrowReadProperties{BatchSize: 1 << 16}, memory.DefaultAllocator)
	if err != nil {
		return nil, fmt.Errorf("reader %s: %w", rel, err)
	}
	tbl, err := fr.ReadTable(context.Background())
	if err != nil {
		return nil, fmt.Errorf("read %s: %w", rel, err)
	}
	defer tbl.Release()
	out := &File{Rel: rel, Abs: abs, Types: map[string]string{}, Meta: map[string]string{}, NumRow: int(tbl.NumRows())}
	if kv := rdr.MetaData().KeyValueMetadata(); kv != nil {
		for i, k := range kv.Keys() {
			out.Meta[k] = kv.Values()[i]
		}
	}
	sch := tbl.Schema()
	for _, f := range sch.Fields() {
		out.Cols = append(out.Cols, f.Name)
		out.Types[f.Name] = f.Type.String()
	}
	out.Rows = make([]map[string]any, out.NumRow)
	for i := range out.Rows {
		out.Rows[i] = make(map[string]any, len(out.Cols))
	}
	for ci := 0; ci < int(tbl.NumCols()); ci++ {
		name := sch.Field(ci).Name
		row := 0
		for _, chunk := range tbl.Column(ci).Data().Chunks() {
			for i := 0; i < chunk.Len(); i++ {
				out.Rows[row][name] = Value(chunk, i)
				row++
			}
		}
	}
	return out, nil
}

// Value converts one cell to a plain Go value.
func Value(a arrow.Array, i int) any {
	if a.IsNull(i) {
		return nil
	}
	switch c := a.(type) {
	case *array.Int64:
		return c.Value(i)
	case *array.Int32:
		return int64(c.Value(i))
	case *array.Int16:
		return int64(c.Value(i))
	case *array.Int8:
		return int64(c.Value(i))
	case *array.Uint64:
		return c.Value(i)
	case *array.Uint32:
		return uint64(c.Value(i))
	case *array.Uint16:
		return uint64(c.Value(i))
	case *array.Uint8:
		return uint64(c.Value(i))
	case *array.Float64:
		return c.Value(i)
	case *array.Float32:
		return float64(c.Value(i))
	case *array.String:
		return c.Value(i)
	case *array.LargeString:
		return c.Value(i)
	case *array.Binary:
		return append([]byte(nil), c.Value(i)...)
	case *array.Boolean:
		return c.Value(i)
	case *array.Timestamp:
		v := int64(c.Value(i))
		switch c.DataType().(*arrow.TimestampType).Unit {
		case arrow.Second:
			return v * 1_000_000
		case arrow.Millisecond:
			return v * 1000
		case arrow.Microsecond:
			return v
		default: // ns
			return v / 1000
		}
	case *array.Dictionary:
		return Value(c.Dictionary(), c.GetValueIndex(i))
	case *array.Decimal128:
		return c.ValueStr(i)
	case *array.Date32:
		return int64(c.Value(i))
	}
	return a.ValueStr(i)
}

// ReadTree decodes every *.parquet under root (sorted by relative path).
func ReadTree(root string) ([]*File, error) {
	var rels []string
	err := filepath.WalkDir(root, func(p string, d fs.DirEntry, err error) error {
		if err != nil {
			return err
		}
		if !d.IsDir() && strings.HasSuffix(p, ".parquet") {
			r, _ := filepath.Rel(root, p)
			rels = append(rels, filepath.ToSlash(r))
		}
		return nil
	})
	if err != nil {
		if os.IsNotExist(err) {
			return nil, nil
		}
		return nil, err
	}
	sort.Strings(rels)
	out := make([]*File, 0, len(rels))
	for _, r := range rels {
		f, err := ReadFile(filepath.Join(root, filepath.FromSlash(r)), r)
		if err != nil {
			return out, err
		}
		out = append(out, f)
	}
	return out, nil
}

// HourPath returns "YYYY/MM/DD/HH" for a microsecond timestamp using floor
// division (independent re-implementation; correct for pre-1970 values).
func HourPath(us int64) string {
	const hourUS = int64(3600) * 1_000_000
	h := us / hourUS
	if us%hourUS < 0 {
		h--
	}
	// civil from days (Howard Hinnant's algorithm), no time package involved
	days := h / 24
	hh := h % 24
	if hh < 0 {
		hh += 24
		days--
	}
	z := days + 719468
	era := z / 146097
	if z < 0 {
		era = (z - 146096) / 146097
	}
	doe := z - era*146097
	yoe := (doe - doe/1460 + doe/36524 - doe/146096) / 365
	y := yoe + era*400
	doy := doe - (365*yoe + yoe/4 - yoe/100)
	mp := (5*doy + 2) / 153
	d := doy - (153*mp+2)/5 + 1
	m := mp + 3
	if m > 12 {
		m -= 12
	}
	if m <= 2 {
		y++
	}
	return fmt.Sprintf("%04d/%02d/%02d/%02d", y, m, d, hh)
}
