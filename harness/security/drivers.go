package main

// Drivers present one signed message to the REAL receiving code of each
// nonce-protected message type and report the accept / reject decision observed
// at the behavioural boundary (wire ack, HTTP status).

import (
	"bytes"
	"crypto/sha256"
	"database/sql"
	"encoding/hex"
	"encoding/json"
	"fmt"
	"io"
	"net"
	"net/http"
	"net/http/httptest"
	"os"
	"path/filepath"
	"strconv"
	"time"

	"github.com/basekick-labs/arc/internal/api"
	"github.com/basekick-labs/arc/internal/cluster"
	"github.com/basekick-labs/arc/internal/cluster/protocol"
	"github.com/basekick-labs/arc/internal/cluster/security"
	"github.com/basekick-labs/arc/internal/config"
	"github.com/basekick-labs/arc/internal/edgesync"
	"github.com/basekick-labs/arc/internal/license"
	"github.com/basekick-labs/arc/internal/storage"
	"github.com/gofiber/fiber/v2"
	_ "github.com/mattn/go-sqlite3"
	"github.com/rs/zerolog"
)

const (
	clusterSecret = "verif-cluster-shared-secret"
	clusterName   = "verif-cluster"
	localNodeID   = "verif-local-node"
	hubID         = "verif-hub"
)

var senders = []string{"node-a", "node-b", "node-c", "node-d"}

func spokeSecret(spoke string) string { return "spoke-secret-for-" + spoke }

// message types
const (
	tSync     = "replication sync handshake"
	tForward  = "forwarded apply"
	tCacheInv = "cache invalidation"
	tEdgeFile = "edge-sync file upload"
	tEdgeRec  = "edge-sync reconcile"
)

var allTypes = []string{tSync, tForward, tCacheInv, tEdgeFile, tEdgeRec}

type decision struct {
	Accepted bool   `json:"accepted"`
	Reason   string `json:"reason"`
}

type driver interface {
	// tolerance of the freshness check and retention of the nonce cache
	tol() time.Duration
	ttl() time.Duration
	ttlOrigin() string
	present(cs *caseT) (decision, error)
	close()
}

// ---------------------------------------------------------------------------
// real cluster.Coordinator over its TCP listener: replication sync handshake and
// forwarded applies. The nonce cache is the one coordinator.Start builds.

type coordRig struct {
	coord *cluster.Coordinator
	addr  string
	fwd   net.Conn
}

func freeAddr() (string, error) {
	l, err := net.Listen("tcp", "127.0.0.1:0")
	if err != nil {
		return "", err
	}
	a := l.Addr().String()
	l.Close()
	return a, nil
}

func newCoordRig() (*coordRig, error) {
	lic := license.NewClientForVerif(&license.License{
		LicenseKey: "verif", CustomerID: "verif", Tier: "enterprise", Status: "active",
		MaxCores: 1024, MaxMachines: 64,
		Features:  []string{license.FeatureClustering},
		ExpiresAt: time.Date(2099, 1, 1, 0, 0, 0, 0, time.UTC),
	})
	var lastErr error
	for try := 0; try < 5; try++ {
		addr, err := freeAddr()
		if err != nil {
			return nil, err
		}
		cfg := &config.ClusterConfig{
			Enabled: true, NodeID: localNodeID, Role: "writer", ClusterName: clusterName,
			CoordinatorAddr: addr, AdvertiseAddr: addr, SharedSecret: clusterSecret,
			HealthCheckInterval: 3600, HealthCheckTimeout: 1, UnhealthyThreshold: 1000,
		}
		co, err := cluster.NewCoordinator(&cluster.CoordinatorConfig{
			Config: cfg, LicenseClient: lic, Version: "verif", APIAddress: "127.0.0.1:1",
			Logger: zerolog.Nop(),
		})
		if err != nil {
			return nil, err
		}
		if err := co.Start(); err != nil {
			lastErr = err
			continue
		}
		return &coordRig{coord: co, addr: addr}, nil
	}
	return nil, fmt.Errorf("coordinator start: %w", lastErr)
}

func (r *coordRig) close() {
	if r.fwd != nil {
		r.fwd.Close()
	}
	_ = r.coord.Stop()
}

type syncDriver struct{ rig *coordRig }

func (d *syncDriver) tol() time.Duration { return security.HMACTimestampTolerance }
func (d *syncDriver) ttl() time.Duration { return security.HMACTimestampTolerance }
func (d *syncDriver) ttlOrigin() string {
	return "built by the real Coordinator.Start (value assumed = HMACTimestampTolerance for classification only)"
}
func (d *syncDriver) close() {}

func (d *syncDriver) present(cs *caseT) (decision, error) {
	if cs.MAC == "" {
		cs.MAC = security.ComputeReplicateSyncHMAC(clusterSecret, cs.Nonce, cs.Sender, clusterName, uint64(cs.ID), cs.TS)
	}
	conn, err := net.DialTimeout("tcp", d.rig.addr, 5*time.Second)
	if err != nil {
		return decision{}, err
	}
	defer conn.Close()
	req := &protocol.ReplicateSync{
		ReaderID: cs.Sender, LastKnownSequence: uint64(cs.ID),
		Nonce: cs.Nonce, ClusterName: clusterName, Timestamp: cs.TS, HMAC: cs.MAC,
	}
	if err := protocol.SendMessage(conn, &protocol.Message{Type: protocol.MsgReplicateSync, Payload: req}, 5*time.Second); err != nil {
		return decision{}, err
	}
	msg, err := protocol.ReceiveMessage(conn, 10*time.Second)
	if err != nil {
		return decision{}, err
	}
	ack, ok := msg.Payload.(*protocol.ReplicateSyncAck)
	if !ok {
		return decision{}, fmt.Errorf("unexpected reply type %v", msg.Type)
	}
	// "authentication failed" is the uniform reject string of every auth branch
	// (freshness, MAC, replay). An authenticated request reaches the "not a
	// writer with replication enabled" answer (no sender is wired here).
	if ack.Error == "authentication failed" {
		return decision{false, ack.Error}, nil
	}
	return decision{true, ack.Error}, nil
}

type forwardDriver struct{ rig *coordRig }

func (d *forwardDriver) tol() time.Duration { return security.HMACTimestampTolerance }
func (d *forwardDriver) ttl() time.Duration { return security.HMACTimestampTolerance }
func (d *forwardDriver) ttlOrigin() string  { return (&syncDriver{}).ttlOrigin() }
func (d *forwardDriver) close()             {}

func (d *forwardDriver) present(cs *caseT) (decision, error) {
	payload := []byte(fmt.Sprintf(`{"type":"verif","case":%d}`, cs.ID))
	if cs.MAC == "" {
		cs.MAC = security.ComputeForwardHMAC(clusterSecret, cs.Nonce, cs.Sender, clusterName, payload, cs.TS)
	}
	req := &protocol.ForwardApplyRequest{CommandJSON: payload, NodeID: cs.Sender, Nonce: cs.Nonce, Timestamp: cs.TS, HMAC: cs.MAC}
	if d.rig.fwd == nil {
		conn, err := net.DialTimeout("tcp", d.rig.addr, 5*time.Second)
		if err != nil {
			return decision{}, err
		}
		d.rig.fwd = conn
	}
	// one persistent connection, as the real forwarding client uses
	conn := d.rig.fwd
	fail := func(err error) (decision, error) {
		// never retry: a retry would be a second presentation of the message
		conn.Close()
		d.rig.fwd = nil
		return decision{}, err
	}
	if err := protocol.SendMessage(conn, &protocol.Message{Type: protocol.MsgForwardApply, Payload: req}, 5*time.Second); err != nil {
		return fail(err)
	}
	msg, err := protocol.ReceiveMessage(conn, 10*time.Second)
	if err != nil {
		return fail(err)
	}
	ack, ok := msg.Payload.(*protocol.ForwardApplyAck)
	if !ok {
		return fail(fmt.Errorf("unexpected reply type %v", msg.Type))
	}
	// past authentication + replay check the handler answers raft_unavailable
	// (no raft node is configured in this rig)
	if ack.Code == protocol.ForwardCodeAuth {
		return decision{false, ack.Error}, nil
	}
	return decision{true, string(ack.Code)}, nil
}

// ---------------------------------------------------------------------------
// real api.CacheInvalidateHandler behind a Fiber app

type cacheInvDriver struct {
	app         *fiber.App
	tolV, ttlV  time.Duration
	origin      string
	invalidates int
}

func newCacheInvDriver(ma mainArgs) *cacheInvDriver {
	d := &cacheInvDriver{tolV: ma.CacheInvTol, ttlV: ma.CacheInvTTL,
		origin: "read from cmd/arc/main.go: security.NewNonceCache(" + ma.CacheInvExpr + ")"}
	h := api.NewCacheInvalidateHandler(clusterSecret, clusterName, localNodeID,
		mirrorCache(ma.CacheInvForTol, ma.CacheInvArg), ma.CacheInvTol,
		func() { d.invalidates++ }, zerolog.Nop())
	d.app = fiber.New(fiber.Config{DisableStartupMessage: true})
	h.Register(d.app)
	return d
}

func (d *cacheInvDriver) tol() time.Duration { return d.tolV }
func (d *cacheInvDriver) ttl() time.Duration { return d.ttlV }
func (d *cacheInvDriver) ttlOrigin() string  { return d.origin }
func (d *cacheInvDriver) close()             { _ = d.app.Shutdown() }

func (d *cacheInvDriver) present(cs *caseT) (decision, error) {
	if cs.MAC == "" {
		cs.MAC = security.ComputeCacheInvalidateHMAC(clusterSecret, cs.Nonce, cs.Sender, clusterName, cs.TS)
	}
	req := httptest.NewRequest(http.MethodPost, api.CacheInvalidatePath, nil)
	req.Header.Set("X-Arc-Node-ID", cs.Sender)
	req.Header.Set("X-Arc-Cluster", clusterName)
	req.Header.Set("X-Arc-Nonce", cs.Nonce)
	req.Header.Set("X-Arc-HMAC", cs.MAC)
	req.Header.Set("X-Arc-Timestamp", strconv.FormatInt(cs.TS, 10))
	before := d.invalidates
	resp, err := d.app.Test(req, -1)
	if err != nil {
		return decision{}, err
	}
	io.Copy(io.Discard, resp.Body)
	resp.Body.Close()
	switch resp.StatusCode {
	case fiber.StatusNoContent:
		if d.invalidates != before+1 {
			return decision{}, fmt.Errorf("204 without invalidation callback")
		}
		return decision{true, "204"}, nil
	case fiber.StatusForbidden:
		if d.invalidates != before {
			// the effect happened although the answer was a reject: count it as accepted
			return decision{true, "403 but caches were invalidated"}, nil
		}
		return decision{false, "403"}, nil
	}
	return decision{}, fmt.Errorf("unexpected status %d", resp.StatusCode)
}

// ---------------------------------------------------------------------------
// real api.EdgeSyncHandler (file upload and reconcile) behind a Fiber app, real
// edgesync.Receiver / Reconciler over a local storage backend.

type edgeRig struct {
	app        *fiber.App
	dir        string
	db         *sql.DB
	backend    storage.Backend
	tolV, ttlV time.Duration
	origin     string
}

func newEdgeRig(ma mainArgs, tmp string) (*edgeRig, error) {
	r := &edgeRig{dir: tmp, tolV: security.HMACTimestampTolerance, ttlV: ma.EdgeSyncTTL,
		origin: "read from cmd/arc/main.go: security.NewNonceCache(" + ma.EdgeSyncExpr + ")"}
	store := filepath.Join(tmp, "store")
	if err := os.MkdirAll(store, 0o755); err != nil {
		return nil, err
	}
	backend, err := storage.NewLocalBackend(store, zerolog.Nop())
	if err != nil {
		return nil, err
	}
	r.backend = backend
	db, err := sql.Open("sqlite3", filepath.Join(tmp, "hubindex.db"))
	if err != nil {
		return nil, err
	}
	r.db = db
	idx, err := edgesync.NewHubIndex(db, zerolog.Nop())
	if err != nil {
		return nil, err
	}
	recv, err := edgesync.NewReceiver(edgesync.ReceiverConfig{Backend: backend, Index: idx, Logger: zerolog.Nop()})
	if err != nil {
		return nil, err
	}
	rec, err := edgesync.NewReconciler(edgesync.ReconcilerConfig{Index: idx, Backend: backend, MaxEntries: 100})
	if err != nil {
		return nil, err
	}
	secrets := map[string]string{}
	for _, s := range senders {
		secrets[s] = spokeSecret(s)
	}
	h, err := api.NewEdgeSyncHandler(api.EdgeSyncHandlerConfig{
		Receiver: recv, Reconciler: rec,
		SpokeSecrets: api.StaticSpokeSecrets(secrets),
		Replay:       mirrorCache(ma.EdgeSyncForTol, ma.EdgeSyncArg),
		HubID:        hubID, MaxFileBytes: 1 << 20, Logger: zerolog.Nop(),
	})
	if err != nil {
		return nil, err
	}
	r.app = fiber.New(fiber.Config{DisableStartupMessage: true, BodyLimit: 4 << 20})
	h.RegisterRoutes(r.app)
	return r, nil
}

func (r *edgeRig) close() {
	_ = r.app.Shutdown()
	r.db.Close()
	r.backend.Close()
}

func (r *edgeRig) do(req *http.Request) (decision, error) {
	resp, err := r.app.Test(req, -1)
	if err != nil {
		return decision{}, err
	}
	body, _ := io.ReadAll(resp.Body)
	resp.Body.Close()
	switch resp.StatusCode {
	case fiber.StatusOK:
		return decision{true, "200"}, nil
	case fiber.StatusUnauthorized:
		var m map[string]any
		_ = json.Unmarshal(body, &m)
		reason, _ := m["reason"].(string)
		return decision{false, "401 " + reason}, nil
	}
	return decision{}, fmt.Errorf("unexpected status %d: %s", resp.StatusCode, string(body))
}

type edgeFileDriver struct{ rig *edgeRig }

func (d *edgeFileDriver) tol() time.Duration { return d.rig.tolV }
func (d *edgeFileDriver) ttl() time.Duration { return d.rig.ttlV }
func (d *edgeFileDriver) ttlOrigin() string  { return d.rig.origin }
func (d *edgeFileDriver) close()             {}

func (d *edgeFileDriver) present(cs *caseT) (decision, error) {
	body := []byte(fmt.Sprintf("verif edge-sync payload of case %d", cs.ID))
	sum := sha256.Sum256(body)
	sha := hex.EncodeToString(sum[:])
	path := fmt.Sprintf("metrics/cpu/2026/08/07/14/case_%d.parquet", cs.ID)
	if cs.MAC == "" {
		mac, err := security.ComputeSyncFileHMAC(spokeSecret(cs.Sender), cs.Nonce, cs.Sender, hubID, path, sha, cs.TS)
		if err != nil {
			return decision{}, err
		}
		cs.MAC = mac
	}
	req := httptest.NewRequest(http.MethodPost, "/api/v1/sync/file", bytes.NewReader(body))
	req.Header.Set("X-Arc-Spoke-ID", cs.Sender)
	req.Header.Set("X-Arc-Sync-HubID", hubID)
	req.Header.Set("X-Arc-Sync-Path", path)
	req.Header.Set("X-Arc-Sync-SHA256", sha)
	req.Header.Set("X-Arc-Sync-Size", strconv.Itoa(len(body)))
	req.Header.Set("X-Arc-Sync-Nonce", cs.Nonce)
	req.Header.Set("X-Arc-Sync-Timestamp", strconv.FormatInt(cs.TS, 10))
	req.Header.Set("X-Arc-Sync-MAC", cs.MAC)
	return d.rig.do(req)
}

type edgeRecDriver struct{ rig *edgeRig }

func (d *edgeRecDriver) tol() time.Duration { return d.rig.tolV }
func (d *edgeRecDriver) ttl() time.Duration { return d.rig.ttlV }
func (d *edgeRecDriver) ttlOrigin() string  { return d.rig.origin }
func (d *edgeRecDriver) close()             {}

func (d *edgeRecDriver) present(cs *caseT) (decision, error) {
	sum := sha256.Sum256([]byte(fmt.Sprintf("reconcile-%d", cs.ID)))
	body := []byte(fmt.Sprintf(`{"entries":[{"path":"metrics/cpu/2026/08/07/15/rec_%d.parquet","sha256":"%s","size":7}]}`,
		cs.ID, hex.EncodeToString(sum[:])))
	if cs.MAC == "" {
		mac, err := security.ComputeSyncReconcileHMAC(spokeSecret(cs.Sender), cs.Nonce, cs.Sender, hubID, body, cs.TS)
		if err != nil {
			return decision{}, err
		}
		cs.MAC = mac
	}
	req := httptest.NewRequest(http.MethodPost, "/api/v1/sync/reconcile", bytes.NewReader(body))
	req.Header.Set("Content-Type", "application/json")
	req.Header.Set("X-Arc-Spoke-ID", cs.Sender)
	req.Header.Set("X-Arc-Sync-HubID", hubID)
	req.Header.Set("X-Arc-Sync-Nonce", cs.Nonce)
	req.Header.Set("X-Arc-Sync-Timestamp", strconv.FormatInt(cs.TS, 10))
	req.Header.Set("X-Arc-Sync-MAC", cs.MAC)
	return d.rig.do(req)
}

// mirrorCache builds the nonce cache with the same REAL constructor cmd/arc/main.go names.
func mirrorCache(forTol bool, arg time.Duration) *security.NonceCache {
	if forTol {
		return security.NewNonceCacheForTolerance(arg)
	}
	return security.NewNonceCache(arg)
}
