package main

// cmd/arc/main.go builds the nonce caches of the cache-invalidate and edge-sync
// handlers, but that code cannot be executed here (clustering / edge sync are
// license-gated in the real binary). The harness therefore READS the constructor
// argument expressions from the current source of cmd/arc/main.go at run time
// and evaluates them, so that an edit of those arguments (e.g. a shorter TTL) is
// visible to the check. Only constant duration expressions are understood.

import (
	"fmt"
	"go/ast"
	"go/parser"
	"go/token"
	"os"
	"path/filepath"
	"strconv"
	"time"

	"github.com/basekick-labs/arc/internal/cluster/security"
)

type mainArgs struct {
	CacheInvTTL  time.Duration `json:"cache_invalidate_nonce_ttl"`
	CacheInvTol  time.Duration `json:"cache_invalidate_tolerance"`
	EdgeSyncTTL  time.Duration `json:"edge_sync_nonce_ttl"`
	Source       string        `json:"source"`
	CacheInvExpr string        `json:"cache_invalidate_ttl_expr"`
	EdgeSyncExpr string        `json:"edge_sync_ttl_expr"`
	// set when main.go builds the cache with NewNonceCacheForTolerance(arg): the
	// harness then calls the same real constructor with the evaluated arg
	CacheInvForTol bool          `json:"cache_invalidate_for_tolerance"`
	CacheInvArg    time.Duration `json:"cache_invalidate_ctor_arg"`
	EdgeSyncForTol bool          `json:"edge_sync_for_tolerance"`
	EdgeSyncArg    time.Duration `json:"edge_sync_ctor_arg"`
}

func repoRoot() string {
	if r := os.Getenv("VERIF_REPO"); r != "" {
		return r
	}
	return "/repo"
}

type constEnv struct {
	consts map[string]ast.Expr
	depth  int
}

func (e *constEnv) eval(x ast.Expr) (int64, error) {
	e.depth++
	defer func() { e.depth-- }()
	if e.depth > 32 {
		return 0, fmt.Errorf("expression too deep")
	}
	switch v := x.(type) {
	case *ast.BasicLit:
		if v.Kind == token.INT {
			return strconv.ParseInt(v.Value, 0, 64)
		}
	case *ast.ParenExpr:
		return e.eval(v.X)
	case *ast.Ident:
		if d, ok := e.consts[v.Name]; ok {
			return e.eval(d)
		}
		return 0, fmt.Errorf("unknown identifier %s", v.Name)
	case *ast.SelectorExpr:
		pkg, ok := v.X.(*ast.Ident)
		if !ok {
			break
		}
		switch pkg.Name + "." + v.Sel.Name {
		case "time.Nanosecond":
			return int64(time.Nanosecond), nil
		case "time.Microsecond":
			return int64(time.Microsecond), nil
		case "time.Millisecond":
			return int64(time.Millisecond), nil
		case "time.Second":
			return int64(time.Second), nil
		case "time.Minute":
			return int64(time.Minute), nil
		case "time.Hour":
			return int64(time.Hour), nil
		case "security.HMACTimestampTolerance":
			// the real, linked-in constant
			return int64(security.HMACTimestampTolerance), nil
		}
		return 0, fmt.Errorf("unknown selector %s.%s", pkg.Name, v.Sel.Name)
	case *ast.CallExpr:
		// time.Duration(x)
		if s, ok := v.Fun.(*ast.SelectorExpr); ok && len(v.Args) == 1 {
			if p, ok := s.X.(*ast.Ident); ok && p.Name == "time" && s.Sel.Name == "Duration" {
				return e.eval(v.Args[0])
			}
		}
	case *ast.BinaryExpr:
		a, err := e.eval(v.X)
		if err != nil {
			return 0, err
		}
		b, err := e.eval(v.Y)
		if err != nil {
			return 0, err
		}
		switch v.Op {
		case token.MUL:
			return a * b, nil
		case token.ADD:
			return a + b, nil
		case token.SUB:
			return a - b, nil
		case token.QUO:
			if b == 0 {
				return 0, fmt.Errorf("division by zero")
			}
			return a / b, nil
		}
	}
	return 0, fmt.Errorf("unsupported expression %T", x)
}

func isSel(x ast.Expr, pkg, name string) bool {
	s, ok := x.(*ast.SelectorExpr)
	if !ok {
		return false
	}
	p, ok := s.X.(*ast.Ident)
	return ok && p.Name == pkg && s.Sel.Name == name
}

func exprString(fset *token.FileSet, src []byte, x ast.Expr) string {
	a, b := fset.Position(x.Pos()).Offset, fset.Position(x.End()).Offset
	if a >= 0 && b <= len(src) && a < b {
		return string(src[a:b])
	}
	return ""
}

// readMainArgs extracts the nonce-cache constructor arguments from cmd/arc/main.go.
func readMainArgs() (mainArgs, error) {
	out := mainArgs{}
	p := filepath.Join(repoRoot(), "cmd", "arc", "main.go")
	src, err := os.ReadFile(p)
	if err != nil {
		return out, err
	}
	fset := token.NewFileSet()
	f, err := parser.ParseFile(fset, p, src, 0)
	if err != nil {
		return out, err
	}
	env := &constEnv{consts: map[string]ast.Expr{}}
	for _, d := range f.Decls {
		g, ok := d.(*ast.GenDecl)
		if !ok || g.Tok != token.CONST {
			continue
		}
		for _, s := range g.Specs {
			vs := s.(*ast.ValueSpec)
			for i, n := range vs.Names {
				if i < len(vs.Values) {
					env.consts[n.Name] = vs.Values[i]
				}
			}
		}
	}
	// forTol is set when the call is NewNonceCacheForTolerance(x): the retention is then
	// what that constructor derives from x (2x+1s) and the harness builds its cache
	// through the same constructor
	forTol := false
	nonceArg := func(x ast.Expr) ast.Expr {
		c, ok := x.(*ast.CallExpr)
		if ok && isSel(c.Fun, "security", "NewNonceCache") && len(c.Args) == 1 {
			forTol = false
			return c.Args[0]
		}
		if ok && isSel(c.Fun, "security", "NewNonceCacheForTolerance") && len(c.Args) == 1 {
			forTol = true
			return c.Args[0]
		}
		return nil
	}
	retention := func(d int64) time.Duration {
		if forTol {
			return 2*time.Duration(d) + time.Second
		}
		return time.Duration(d)
	}
	var found [3]bool
	var firstErr error
	ast.Inspect(f, func(n ast.Node) bool {
		switch v := n.(type) {
		case *ast.CallExpr:
			if isSel(v.Fun, "api", "NewCacheInvalidateHandler") && len(v.Args) >= 5 {
				if a := nonceArg(v.Args[3]); a != nil {
					d, err := env.eval(a)
					if err != nil && firstErr == nil {
						firstErr = fmt.Errorf("cache-invalidate nonce TTL: %w", err)
					} else if err == nil {
						out.CacheInvTTL, out.CacheInvExpr, found[0] = retention(int64(d)), exprString(fset, src, a), true
						out.CacheInvForTol, out.CacheInvArg = forTol, time.Duration(d)
					}
				}
				d, err := env.eval(v.Args[4])
				if err != nil && firstErr == nil {
					firstErr = fmt.Errorf("cache-invalidate tolerance: %w", err)
				} else if err == nil {
					out.CacheInvTol, found[1] = time.Duration(d), true
				}
			}
		case *ast.CompositeLit:
			if !isSel(v.Type, "api", "EdgeSyncHandlerConfig") {
				return true
			}
			for _, el := range v.Elts {
				kv, ok := el.(*ast.KeyValueExpr)
				if !ok {
					continue
				}
				if k, ok := kv.Key.(*ast.Ident); ok && k.Name == "Replay" {
					if a := nonceArg(kv.Value); a != nil {
						d, err := env.eval(a)
						if err != nil && firstErr == nil {
							firstErr = fmt.Errorf("edge-sync nonce TTL: %w", err)
						} else if err == nil {
							out.EdgeSyncTTL, out.EdgeSyncExpr, found[2] = retention(int64(d)), exprString(fset, src, a), true
							out.EdgeSyncForTol, out.EdgeSyncArg = forTol, time.Duration(d)
						}
					}
				}
			}
		}
		return true
	})
	if firstErr != nil {
		return out, firstErr
	}
	if !found[0] || !found[1] || !found[2] {
		return out, fmt.Errorf("constructor calls not found in %s (cacheinv ttl=%v tol=%v edgesync ttl=%v)", p, found[0], found[1], found[2])
	}
	out.Source = p
	return out, nil
}
