package main

// C26: every cluster request protected by an HMAC plus nonce is accepted at most
// once for a given (sender, nonce), at whatever times within the accepted
// clock-skew window the original and the replay arrive, and is rejected once its
// timestamp is outside that window.
//
// The real receiving code of every nonce-protected message type runs under a
// virtual clock (build-time rewrite of time.Now in the security package). All
// cases of all types are laid out on ONE virtual timeline and executed in time
// order, so that a message's nonce entry lives through other traffic and through
// the cache's eviction sweeps between its first receipt and its replay.

import (
	"crypto/sha256"
	"encoding/hex"
	"fmt"
	"os"
	"runtime"
	"sort"
	"sync/atomic"
	"time"

	"github.com/basekick-labs/arc/internal/verifhook"
	"github.com/basekick-labs/arc/internal/zzverif/vlib"
)

type caseT struct {
	Type    string  `json:"type"`
	ID      int     `json:"id"`
	Kind    string  `json:"kind"`                  // grid | random | filler
	BaseNS  int64   `json:"base_unix_nanos"`       // virtual time of the first presentation
	OffsetS int64   `json:"timestamp_offset_s"`    // signed timestamp = floor(base) + offset
	DelaysS []int64 `json:"presentation_delays_s"` // each presentation's delay after base (first is 0)
	Sender  string  `json:"sender"`
	Nonce   string  `json:"nonce"`
	TS      int64   `json:"signed_timestamp"`
	MAC     string  `json:"mac"`

	Decisions []decision `json:"decisions"`
	broken    bool
}

type event struct {
	t    int64
	cidx int
	k    int
}

var vnow atomic.Int64

func installClock() {
	verifhook.SetNow(func() time.Time { return time.Unix(0, vnow.Load()).UTC() })
}

func nonceFor(seed int64, typ string, id int) string {
	h := sha256.Sum256([]byte(fmt.Sprintf("c26-nonce/%d/%s/%d", seed, typ, id)))
	return hex.EncodeToString(h[:])
}

type rigs struct {
	coord *coordRig
	edge  *edgeRig
	drv   map[string]driver
	tmp   string
}

func buildRigs(c *vlib.Ctx, ma mainArgs) (*rigs, error) {
	r := &rigs{drv: map[string]driver{}}
	co, err := newCoordRig()
	if err != nil {
		return nil, fmt.Errorf("coordinator rig: %w", err)
	}
	r.coord = co
	r.tmp = vlib.TempDir("c26")
	er, err := newEdgeRig(ma, r.tmp)
	if err != nil {
		co.close()
		os.RemoveAll(r.tmp)
		return nil, fmt.Errorf("edge-sync rig: %w", err)
	}
	r.edge = er
	r.drv[tSync] = &syncDriver{co}
	r.drv[tForward] = &forwardDriver{co}
	r.drv[tCacheInv] = newCacheInvDriver(ma)
	r.drv[tEdgeFile] = &edgeFileDriver{er}
	r.drv[tEdgeRec] = &edgeRecDriver{er}
	return r, nil
}

func (r *rigs) close() {
	for _, d := range r.drv {
		d.close()
	}
	r.coord.close()
	r.edge.close()
	os.RemoveAll(r.tmp)
}

// inWindow: the message's signed timestamp (whole seconds) is inside the
// tolerance at virtual time t. Timestamps have one-second resolution, so the
// comparison is made on whole seconds, as any receiver of such a timestamp must.
func inWindow(tNS int64, ts int64, tol time.Duration) bool {
	d := tNS/int64(time.Second) - ts
	if d < 0 {
		d = -d
	}
	return d <= int64(tol/time.Second)
}

// runTimeline executes all presentations in virtual-time order.
func runTimeline(c *vlib.Ctx, r *rigs, cases []*caseT) {
	var evs []event
	for i, cs := range cases {
		for k, d := range cs.DelaysS {
			evs = append(evs, event{cs.BaseNS + d*int64(time.Second), i, k})
		}
	}
	sort.SliceStable(evs, func(a, b int) bool {
		if evs[a].t != evs[b].t {
			return evs[a].t < evs[b].t
		}
		if evs[a].cidx != evs[b].cidx {
			return evs[a].cidx < evs[b].cidx
		}
		return evs[a].k < evs[b].k
	})
	for n, e := range evs {
		cs := cases[e.cidx]
		if cs.broken {
			continue
		}
		vnow.Store(e.t)
		dec, err := r.drv[cs.Type].present(cs)
		if err != nil {
			cs.broken = true
			c.Count("presentation_errors", 1)
			c.Inconclusive(fmt.Sprintf("%s case %d presentation %d: %v", cs.Type, cs.ID, e.k, err))
			continue
		}
		cs.Decisions = append(cs.Decisions, dec)
		c.Count("presentations", 1)
		if n%512 == 511 {
			// accepted sync handshakes leave the server side of the connection to
			// the (absent) replication sender; let finalizers close them
			runtime.GC()
		}
	}
}

func judge(c *vlib.Ctx, r *rigs, cs *caseT) {
	if cs.broken || cs.Kind == "filler" {
		return
	}
	d := r.drv[cs.Type]
	tol := d.tol()
	T := int64(tol / time.Second)
	c.Eval()
	firstAccept := -1
	exercised := false
	for k, dec := range cs.Decisions {
		t := cs.BaseNS + cs.DelaysS[k]*int64(time.Second)
		in := inWindow(t, cs.TS, tol)
		if dec.Accepted {
			c.Count("accepted", 1)
		} else {
			c.Count("rejected", 1)
		}
		if !in {
			c.Count("presentations_outside_window", 1)
			exercised = true
			if dec.Accepted {
				side := "past"
				if cs.TS > t/int64(time.Second) {
					side = "future"
				}
				c.Violation(fmt.Sprintf("%s: accepted with timestamp outside tolerance (%s side)", cs.Type, side),
					map[string]any{"case": cs, "presentation": k, "tolerance_s": T})
			}
		}
		if dec.Accepted {
			if firstAccept < 0 {
				firstAccept = k
				continue
			}
			// second acceptance of the same (sender, nonce, MAC)
			delay := cs.DelaysS[k] - cs.DelaysS[firstAccept]
			var shape string
			switch {
			case delay < T:
				shape = "replay accepted at delay < T after the first acceptance (nonce not retained)"
			case delay == T:
				shape = "replay accepted at the tolerance boundary: delay == T, nonce entry already expired while drift == T is still fresh"
			default:
				shape = "replay accepted after nonce eviction: future-dated timestamp, delay in (T, 2T]"
			}
			c.Violation(cs.Type+": "+shape, map[string]any{
				"case": cs, "first_accept_presentation": firstAccept, "replay_presentation": k,
				"replay_delay_s": delay, "tolerance_s": T, "nonce_ttl_s": int64(d.ttl() / time.Second),
				"nonce_ttl_origin": d.ttlOrigin(),
				"replay_in_window": in,
			})
			c.Count("double_accepts", 1)
		} else if firstAccept >= 0 {
			c.Count("replays_rejected_after_accept", 1)
			exercised = true
		}
	}
	if exercised {
		c.Nontrivial(fmt.Sprintf("%s/%d/%v/%d", cs.Type, cs.OffsetS, cs.DelaysS, cs.BaseNS%int64(time.Second)))
	}
}

func checkC26(c *vlib.Ctx) {
	installClock()
	ma, err := readMainArgs()
	if err != nil {
		panic(fmt.Sprintf("cannot read nonce-cache constructor arguments from cmd/arc/main.go: %v", err))
	}
	c.Extra("main_go_nonce_cache_args", ma)
	c.Rule("per message type: grid of signed timestamp offset {-T-1,-T,-T+1,0,T-1,T,T+1}s x replay delay {0,1,T/2,T-1,T,T+1,2T-1,2T,2T+1}s x first-receipt times (several sub-second phases), plus seeded random (offset, 1-3 replay delays); the same (sender, nonce, MAC) presented repeatedly to the real receiver under a virtual clock, all cases interleaved on one timeline; a case is non-trivial when a replay followed an acceptance or a presentation fell outside the window")
	c.Assume("accept/reject is read at the wire: sync ack error string, forward-apply ack code, HTTP status (+ invalidation callback / 401 reason)")
	c.Assume("freshness is judged on whole seconds (timestamps have one-second resolution)")
	c.Assume("nonce caches of cache-invalidate and edge-sync are built by the harness with the argument expressions read from cmd/arc/main.go at run time; the coordinator builds its own")

	if c.Replay != "" {
		replayC26(c, ma)
		return
	}

	r, err := buildRigs(c, ma)
	if err != nil {
		panic(err)
	}
	defer r.close()

	rng := c.Rand("cases")
	epoch := time.Date(2031, 3, 5, 7, 11, 0, 0, time.UTC).UnixNano() + rng.Int64N(86400)*int64(time.Second)
	vnow.Store(epoch - int64(time.Hour))

	phases := []int64{0, 1, 300_000_000, 999_999_999, 500_000_000, 999_999_998, 123_456_789, 2}
	nBases := c.N(6, 40)
	nRandom := c.N(1500, 100000)
	var cases []*caseT
	id := 0
	add := func(typ, kind string, base, off int64, delays []int64) {
		id++
		cs := &caseT{Type: typ, ID: id, Kind: kind, BaseNS: base, OffsetS: off, DelaysS: delays,
			Sender: senders[id%len(senders)], Nonce: nonceFor(c.Seed, typ, id)}
		cs.TS = base/int64(time.Second) + off
		cases = append(cases, cs)
	}
	span := int64(0)
	for _, typ := range allTypes {
		T := int64(r.drv[typ].tol() / time.Second)
		offsets := []int64{-T - 1, -T, -T + 1, 0, T - 1, T, T + 1}
		delays := []int64{0, 1, T / 2, T - 1, T, T + 1, 2*T - 1, 2 * T, 2*T + 1}
		for b := 0; b < nBases; b++ {
			base := epoch + int64(b)*97*int64(time.Second) + phases[b%len(phases)] + rng.Int64N(50)*int64(time.Second)
			for _, o := range offsets {
				for _, d := range delays {
					ds := []int64{0, d}
					if o > T {
						// rejected as future-dated at first; becomes valid later:
						// present it twice once inside the window as well
						ds = []int64{0, d, d + 1, d + T}
					}
					add(typ, "grid", base, o, ds)
				}
			}
		}
		if s := int64(nBases)*97 + 50; s > span {
			span = s
		}
		for i := 0; i < nRandom; i++ {
			base := epoch + rng.Int64N(span*int64(time.Second))
			o := rng.Int64N(2*T+7) - T - 3
			ds := []int64{0}
			for k, n := 0, 1+rng.IntN(3); k < n; k++ {
				ds = append(ds, rng.Int64N(2*T+4))
			}
			sort.Slice(ds, func(a, b int) bool { return ds[a] < ds[b] })
			add(typ, "random", base, o, ds)
		}
	}
	runTimeline(c, r, cases)
	perType := map[string]int{}
	for _, cs := range cases {
		judge(c, r, cs)
		perType[cs.Type]++
	}
	for i, cs := range cases {
		if i%997 == 0 {
			c.Sample(map[string]any{"type": cs.Type, "offset_s": cs.OffsetS, "delays_s": cs.DelaysS, "decisions": cs.Decisions})
		}
	}
	c.Extra("cases_per_type", perType)
	c.Floor(c.N(800, 5000))
}

// replayC26 re-executes the recorded case alone on fresh receivers, with one
// unrelated message of the same type every 30 virtual seconds as background
// traffic (so that eviction sweeps run as they do in the full timeline).
func replayC26(c *vlib.Ctx, ma mainArgs) {
	var rec struct {
		Case caseT `json:"case"`
	}
	if err := vlib.LoadReplay(c.Replay, &rec); err != nil {
		panic(err)
	}
	r, err := buildRigs(c, ma)
	if err != nil {
		panic(err)
	}
	defer r.close()
	cs := rec.Case
	cs.Decisions, cs.MAC = nil, ""
	cases := []*caseT{&cs}
	last := cs.DelaysS[len(cs.DelaysS)-1]
	vnow.Store(cs.BaseNS - int64(time.Hour))
	for s, n := int64(-90), 0; s <= last+30; s, n = s+30, n+1 {
		f := &caseT{Type: cs.Type, ID: 1_000_000 + n, Kind: "filler", BaseNS: cs.BaseNS + s*int64(time.Second) + 7,
			DelaysS: []int64{0}, Sender: "node-d", Nonce: nonceFor(c.Seed, "filler", n)}
		f.TS = f.BaseNS / int64(time.Second)
		cases = append(cases, f)
	}
	runTimeline(c, r, cases)
	judge(c, r, &cs)
	fmt.Printf("REPLAY %s offset=%ds delays=%v decisions=%+v\n", cs.Type, cs.OffsetS, cs.DelaysS, cs.Decisions)
	c.Sample(cs)
	c.Floor(0)
}
