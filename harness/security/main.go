// Harness for the cluster security area: C26 (nonce-protected cluster requests
// cannot be replayed).
package main

import (
	"flag"
	"fmt"
	"os"

	"github.com/basekick-labs/arc/internal/zzverif/vlib"
)

func main() {
	prop := flag.String("prop", "", "property id")
	flag.String("replay", "", "replay file")
	flag.Parse()
	switch *prop {
	case "C26":
		vlib.Main("C26", "exploration", checkC26)
	default:
		fmt.Println("unknown property", *prop)
		os.Exit(2)
	}
}
