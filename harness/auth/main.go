// Harness for the auth area: C20 (permission decisions always reflect the current
// RBAC state) and C21 (revoked, deleted or rotated token values stop
// authenticating immediately).
package main

import (
	"flag"
	"fmt"
	"os"

	"github.com/basekick-labs/arc/internal/zzverif/vlib"
)

func main() {
	prop := flag.String("prop", "", "property id")
	flag.String("replay", "", "replay file")
	flag.Parse()
	switch *prop {
	case "C20":
		vlib.Main("C20", "exploration", checkC20)
	case "C21":
		vlib.Main("C21", "exploration", checkC21)
	default:
		fmt.Println("unknown property", *prop)
		os.Exit(2)
	}
}
