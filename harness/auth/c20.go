package main

import (
	"crypto/sha256"
	"encoding/hex"
	"fmt"
	"math/rand/v2"
	"sort"
	"strings"
	"sync"
	"time"

	"github.com/basekick-labs/arc/internal/auth"
	"github.com/basekick-labs/arc/internal/verifhook"
	"github.com/basekick-labs/arc/internal/zzverif/vlib"
)

// ---------------------------------------------------------------------------
// Universe
// ---------------------------------------------------------------------------

const (
	nTok, nOrg, nTeam, nRole, nMP = 3, 2, 3, 3, 4
)

var (
	allPerms    = []string{"read", "write", "delete", "admin"}
	dbPatterns  = []string{"prod", "prod_*", "*", "dev", "*_eu", "pro*"}
	msPatterns  = []string{"cpu", "cpu_*", "*", "*_total", "mem"}
	checkDBs    = []string{"prod", "prod_eu", "dev", "staging"}
	checkMeas   = []string{"", "cpu", "cpu_load", "mem_total"}
	tokPermSets = []string{auth.PermissionsNone, "read", "read,write", "write", "read,write,delete", "admin", ""}
)

// Op is one mutation of a history. A is the slot of the entity acted on, B the
// slot of its parent (or the team for memberships); S and P carry the payload.
type Op struct {
	Kind string   `json:"kind"`
	A    int      `json:"a"`
	B    int      `json:"b,omitempty"`
	S    string   `json:"s,omitempty"`
	P    []string `json:"p,omitempty"`
	Err  string   `json:"err,omitempty"` // filled in by the executor (information only)
}

func (o Op) String() string {
	return fmt.Sprintf("%s(a=%d b=%d s=%q p=%v)", o.Kind, o.A, o.B, o.S, o.P)
}

type tokSlot struct {
	id      int64
	name    string
	value   string // current plaintext
	prev    string // previous plaintext (rotated away), "" if none
	created bool
	gen     int
}

// hist is the harness-side bookkeeping for one history: which database ids the
// slots currently map to. It holds no policy knowledge.
type hist struct {
	e     *env
	toks  []tokSlot
	orgs  [nOrg]int64
	teams [nTeam]int64
	roles [nRole]int64
	mps   [nMP]int64
	gen   int
	vrng  *rand.Rand // token value material
}

func newHist(e *env, valueSeed uint64) *hist { return newHistN(e, valueSeed, nTok) }

// newHistN allows more token slots than the default universe (pressure family).
func newHistN(e *env, valueSeed uint64, tokens int) *hist {
	return &hist{e: e, toks: make([]tokSlot, tokens), vrng: rand.New(rand.NewPCG(valueSeed, 0x5eed))}
}

func orMissing(id int64, slot int) int64 {
	if id == 0 {
		return int64(900000 + slot) // never allocated: exercises the not-found paths
	}
	return id
}

func (h *hist) rowExists(table string, id int64) bool {
	if id == 0 {
		return false
	}
	var one int
	return h.e.db().QueryRow(`SELECT 1 FROM `+table+` WHERE id = ?`, id).Scan(&one) == nil
}

// refresh drops slot bindings whose rows are gone (cascading deletes).
func (h *hist) refresh() {
	for i := range h.orgs {
		if !h.rowExists("rbac_organizations", h.orgs[i]) {
			h.orgs[i] = 0
		}
	}
	for i := range h.teams {
		if !h.rowExists("rbac_teams", h.teams[i]) {
			h.teams[i] = 0
		}
	}
	for i := range h.roles {
		if !h.rowExists("rbac_roles", h.roles[i]) {
			h.roles[i] = 0
		}
	}
	for i := range h.mps {
		if !h.rowExists("rbac_measurement_permissions", h.mps[i]) {
			h.mps[i] = 0
		}
	}
}

func ptr[T any](v T) *T { return &v }

// exec runs one mutation through the managers' exported methods. In cluster
// mode the same methods propose to the FSM, whose callbacks call Apply*.
func (h *hist) exec(o *Op) {
	rm, am := h.e.rm, h.e.am
	var err error
	h.gen++
	switch o.Kind {
	case "OrgCreate":
		var org *auth.Organization
		org, err = rm.CreateOrganization(bg, &auth.CreateOrganizationRequest{Name: fmt.Sprintf("org%d_%d", o.A, h.gen), Description: "d"})
		if err == nil {
			h.orgs[o.A] = org.ID
		}
	case "OrgRename":
		err = rm.UpdateOrganization(bg, orMissing(h.orgs[o.A], o.A), &auth.UpdateOrganizationRequest{Name: ptr(fmt.Sprintf("org%d_r%d", o.A, h.gen)), Description: ptr("renamed")})
	case "OrgDisable":
		err = rm.UpdateOrganization(bg, orMissing(h.orgs[o.A], o.A), &auth.UpdateOrganizationRequest{Enabled: ptr(false)})
	case "OrgEnable":
		err = rm.UpdateOrganization(bg, orMissing(h.orgs[o.A], o.A), &auth.UpdateOrganizationRequest{Enabled: ptr(true)})
	case "OrgDelete":
		err = rm.DeleteOrganization(bg, orMissing(h.orgs[o.A], o.A))
	case "TeamCreate":
		var t *auth.Team
		t, err = rm.CreateTeam(bg, orMissing(h.orgs[o.B], o.B), &auth.CreateTeamRequest{Name: fmt.Sprintf("team%d_%d", o.A, h.gen)})
		if err == nil {
			h.teams[o.A] = t.ID
		}
	case "TeamRename":
		err = rm.UpdateTeam(bg, orMissing(h.teams[o.A], o.A), &auth.UpdateTeamRequest{Name: ptr(fmt.Sprintf("team%d_r%d", o.A, h.gen))})
	case "TeamDisable":
		err = rm.UpdateTeam(bg, orMissing(h.teams[o.A], o.A), &auth.UpdateTeamRequest{Enabled: ptr(false)})
	case "TeamEnable":
		err = rm.UpdateTeam(bg, orMissing(h.teams[o.A], o.A), &auth.UpdateTeamRequest{Enabled: ptr(true)})
	case "TeamDelete":
		err = rm.DeleteTeam(bg, orMissing(h.teams[o.A], o.A))
	case "RoleCreate":
		var r *auth.Role
		r, err = rm.CreateRole(bg, orMissing(h.teams[o.B], o.B), &auth.CreateRoleRequest{DatabasePattern: o.S, Permissions: o.P})
		if err == nil {
			h.roles[o.A] = r.ID
		}
	case "RoleUpdate":
		req := &auth.UpdateRoleRequest{Permissions: o.P}
		if o.S != "" {
			req.DatabasePattern = ptr(o.S)
		}
		err = rm.UpdateRole(bg, orMissing(h.roles[o.A], o.A), req)
	case "RoleDelete":
		err = rm.DeleteRole(bg, orMissing(h.roles[o.A], o.A))
	case "MPermCreate":
		var m *auth.MeasurementPermission
		m, err = rm.CreateMeasurementPermission(bg, orMissing(h.roles[o.B], o.B), &auth.CreateMeasurementPermissionRequest{MeasurementPattern: o.S, Permissions: o.P})
		if err == nil {
			h.mps[o.A] = m.ID
		}
	case "MPermDelete":
		err = rm.DeleteMeasurementPermission(bg, orMissing(h.mps[o.A], o.A))
	case "MemberAdd":
		_, err = rm.AddTokenToTeam(bg, orMissing(h.toks[o.A].id, o.A), orMissing(h.teams[o.B], o.B))
	case "MemberRemove":
		err = rm.RemoveTokenFromTeam(bg, orMissing(h.toks[o.A].id, o.A), orMissing(h.teams[o.B], o.B))
	case "TokenCreate", "TokenCreateExpiring", "TokenCreateExpired":
		t := &h.toks[o.A]
		name := fmt.Sprintf("tok%d_%d", o.A, h.gen)
		var exp *time.Time
		if o.Kind == "TokenCreateExpiring" {
			exp = ptr(time.Now().Add(5 * time.Hour))
		} else if o.Kind == "TokenCreateExpired" {
			exp = ptr(time.Now().Add(-5 * time.Hour))
		}
		var val string
		switch {
		case o.B == 2 && exp == nil:
			// token row with a pre-v26 SHA-256 hash (see createLegacyToken):
			// no PBKDF2 cost, same caching behaviour
			perms := o.S
			if perms == auth.PermissionsNone {
				perms = ""
			} else if perms == "" {
				perms = "read,write"
			}
			val = createLegacyToken(h.e, name, h.newValue(), perms).value
		case o.B == 1: // caller-provided value path
			val, err = am.CreateTokenWithValue(bg, h.newValue(), name, "d", o.S, exp)
		default:
			val, err = am.CreateToken(bg, name, "d", o.S, exp)
		}
		if err == nil {
			*t = tokSlot{id: h.e.tokenIDByName(name), name: name, value: val, created: true}
		}
	case "TokenSetPerms":
		s := o.S
		if s == auth.PermissionsNone {
			s = "" // UpdateToken stores the string as is; "" is the RBAC-only token
		}
		err = am.UpdateToken(bg, orMissing(h.toks[o.A].id, o.A), nil, nil, &s, nil)
	case "TokenRename":
		err = am.UpdateToken(bg, orMissing(h.toks[o.A].id, o.A), ptr(fmt.Sprintf("tok%d_r%d", o.A, h.gen)), ptr("renamed"), nil, nil)
	case "TokenExpire":
		err = am.UpdateToken(bg, orMissing(h.toks[o.A].id, o.A), nil, nil, nil, ptr(time.Now().Add(-5*time.Hour)))
	case "TokenExtend":
		err = am.UpdateToken(bg, orMissing(h.toks[o.A].id, o.A), nil, nil, nil, ptr(time.Now().Add(7*time.Hour)))
	case "TokenRevoke":
		err = am.RevokeToken(bg, orMissing(h.toks[o.A].id, o.A))
	case "TokenDelete":
		err = am.DeleteToken(bg, orMissing(h.toks[o.A].id, o.A))
	case "TokenRotate":
		var nv string
		nv, err = am.RotateToken(bg, orMissing(h.toks[o.A].id, o.A))
		if err == nil && h.toks[o.A].created {
			h.toks[o.A].prev, h.toks[o.A].value = h.toks[o.A].value, nv
		}
	default:
		panic("unknown op kind " + o.Kind)
	}
	if err != nil {
		o.Err = err.Error()
	} else {
		o.Err = ""
	}
	h.refresh()
}

func (h *hist) newValue() string {
	const al = "abcdefghijklmnopqrstuvwxyzABCDEFGHIJKLMNOPQRSTUVWXYZ0123456789"
	b := make([]byte, 43)
	for i := range b {
		b[i] = al[h.vrng.IntN(len(al))]
	}
	return "v_" + string(b)
}

// ---------------------------------------------------------------------------
// Observation: the full decision grid, warm managers vs cache-free evaluation
// ---------------------------------------------------------------------------

type cell struct {
	Tok   int    `json:"token_slot"`
	Value string `json:"value"` // "current" | "previous"
	DB    string `json:"database"`
	Meas  string `json:"measurement"`
	Perm  string `json:"permission"`
}

type divergence struct {
	Path     string `json:"path"` // "authenticate" | "single" | "batch" | "reference"
	Cell     cell   `json:"cell"`
	Warm     bool   `json:"warm_decision"`
	Expected bool   `json:"cache_free_decision"`
	Source   string `json:"warm_source,omitempty"`
	Note     string `json:"note,omitempty"`
}

// refState is the stored RBAC state read straight from SQLite for the
// independent reference model.
type refState struct {
	teamsOf map[int64][]int64 // token id -> team ids
	teamOn  map[int64]bool
	rolesOf map[int64][]refRole // team id -> roles
	mpsOf   map[int64][]refMP   // role id -> measurement permissions
}
type refRole struct {
	id      int64
	pattern string
	perms   []string
}
type refMP struct {
	pattern string
	perms   []string
}

func loadRef(e *env) *refState {
	s := &refState{teamsOf: map[int64][]int64{}, teamOn: map[int64]bool{}, rolesOf: map[int64][]refRole{}, mpsOf: map[int64][]refMP{}}
	q := func(sqlText string, scan func(scanFn func(...any) error)) {
		rows, err := e.db().Query(sqlText)
		if err != nil {
			panic(err)
		}
		defer rows.Close()
		for rows.Next() {
			scan(rows.Scan)
		}
	}
	q(`SELECT token_id, team_id FROM rbac_token_memberships`, func(sc func(...any) error) {
		var a, b int64
		_ = sc(&a, &b)
		s.teamsOf[a] = append(s.teamsOf[a], b)
	})
	q(`SELECT id, enabled FROM rbac_teams`, func(sc func(...any) error) {
		var id int64
		var on bool
		_ = sc(&id, &on)
		s.teamOn[id] = on
	})
	q(`SELECT id, team_id, database_pattern, permissions FROM rbac_roles`, func(sc func(...any) error) {
		var id, t int64
		var p, perms string
		_ = sc(&id, &t, &p, &perms)
		s.rolesOf[t] = append(s.rolesOf[t], refRole{id, p, splitCSV(perms)})
	})
	q(`SELECT role_id, measurement_pattern, permissions FROM rbac_measurement_permissions`, func(sc func(...any) error) {
		var r int64
		var p, perms string
		_ = sc(&r, &p, &perms)
		s.mpsOf[r] = append(s.mpsOf[r], refMP{p, splitCSV(perms)})
	})
	return s
}

func splitCSV(s string) []string {
	if s == "" {
		return nil
	}
	return strings.Split(s, ",")
}

// refMatch: "*" matches everything; one trailing "*" is a prefix match; a
// leading "*_" is a suffix match; otherwise equality. (Leading "*" without "_"
// is left out of the generated universe: validation accepts it but the matcher
// treats it as a literal; that is a policy question, not a C20 matter.)
func refMatch(pattern, v string) bool {
	switch {
	case pattern == "*":
		return true
	case strings.HasSuffix(pattern, "*"):
		return strings.HasPrefix(v, pattern[:len(pattern)-1])
	case strings.HasPrefix(pattern, "*_"):
		return strings.HasSuffix(v, pattern[1:])
	}
	return pattern == v
}

func refHas(perms []string, p string) bool {
	for _, x := range perms {
		if x == "admin" || x == p {
			return true
		}
	}
	return false
}

// refAllowed is the reference reading of the policy: a token's own permissions
// always count; on top of them a token that belongs to teams is granted what an
// enabled team's role grants on a matching database, where a role that carries
// measurement permissions answers measurement-scoped requests only through them.
func (s *refState) refAllowed(tokenID int64, tokenPerms []string, db, meas, perm string) bool {
	if refHas(tokenPerms, perm) {
		return true
	}
	for _, t := range s.teamsOf[tokenID] {
		if !s.teamOn[t] {
			continue
		}
		for _, r := range s.rolesOf[t] {
			if !refMatch(r.pattern, db) {
				continue
			}
			if meas != "" && len(s.mpsOf[r.id]) > 0 {
				for _, m := range s.mpsOf[r.id] {
					if refMatch(m.pattern, meas) && refHas(m.perms, perm) {
						return true
					}
				}
				continue
			}
			if refHas(r.perms, perm) {
				return true
			}
		}
	}
	return false
}

type gridResult struct {
	expected string // one byte per principal/cell: '1' allow, '0' deny
	divs     []divergence
	compared int
	authed   int
}

// observe issues the whole grid against the warm managers (single and batched,
// order alternating with `flip`) and against a cache-free evaluation of the
// stored state, and returns every disagreement.
func (h *hist) observe(flip bool) gridResult {
	e := h.e
	fresh := e.freshRBAC()
	defer fresh.Close()
	ref := loadRef(e)
	now := time.Now()
	var res gridResult
	var exp strings.Builder

	type principal struct {
		slot  int
		kind  string
		value string
		info  *auth.TokenInfo // warm authentication result
		row   *auth.TokenInfo // stored row (cache-free), nil when it must not authenticate
	}
	var ps []principal
	for i := range h.toks {
		t := &h.toks[i]
		if !t.created {
			continue
		}
		for _, pv := range []struct{ kind, v string }{{"current", t.value}, {"previous", t.prev}} {
			if pv.v == "" {
				continue
			}
			p := principal{slot: i, kind: pv.kind, value: pv.v}
			p.info = e.am.VerifyToken(pv.v)
			row, err := e.am.GetTokenByID(t.id)
			if err != nil {
				panic(err)
			}
			ok := row != nil && row.Enabled && pv.kind == "current" && !(row.ExpiresAt != nil && now.After(*row.ExpiresAt))
			if ok {
				p.row = row
				res.authed++
			}
			if (p.info != nil) != ok {
				res.divs = append(res.divs, divergence{Path: "authenticate", Cell: cell{Tok: i, Value: pv.kind},
					Warm: p.info != nil, Expected: ok, Note: "VerifyToken result vs stored token row (exists, enabled, current value, not expired)"})
			}
			ps = append(ps, p)
		}
	}

	// requests against the warm manager use the TokenInfo the warm AuthManager
	// handed out, exactly like the HTTP middleware does.
	type item struct {
		p   int
		c   cell
		req *auth.PermissionCheckRequest
	}
	var items []item
	for pi, p := range ps {
		for _, db := range checkDBs {
			for _, ms := range checkMeas {
				for _, perm := range allPerms {
					it := item{p: pi, c: cell{Tok: p.slot, Value: p.kind, DB: db, Meas: ms, Perm: perm}}
					if p.info != nil {
						it.req = &auth.PermissionCheckRequest{TokenInfo: p.info, Database: db, Measurement: ms, Permission: perm}
					}
					items = append(items, it)
				}
			}
		}
	}
	single := make([]*auth.PermissionCheckResult, len(items))
	batch := make([]*auth.PermissionCheckResult, len(items))
	doSingle := func() {
		for i, it := range items {
			if it.req != nil {
				single[i] = e.rm.CheckPermission(it.req)
			}
		}
	}
	doBatch := func() {
		var reqs []*auth.PermissionCheckRequest
		var idx []int
		for i, it := range items {
			if it.req != nil {
				reqs = append(reqs, it.req)
				idx = append(idx, i)
			}
		}
		out := e.rm.CheckPermissionsBatch(reqs)
		for k, i := range idx {
			batch[i] = out[k]
		}
	}
	if flip {
		doBatch()
		doSingle()
	} else {
		doSingle()
		doBatch()
	}

	for i, it := range items {
		p := ps[it.p]
		want := false
		if p.row != nil {
			fr := fresh.CheckPermission(&auth.PermissionCheckRequest{TokenInfo: p.row, Database: it.c.DB, Measurement: it.c.Meas, Permission: it.c.Perm})
			want = fr.Allowed
			if rf := ref.refAllowed(p.row.ID, p.row.Permissions, it.c.DB, it.c.Meas, it.c.Perm); rf != want {
				res.divs = append(res.divs, divergence{Path: "reference", Cell: it.c, Warm: want, Expected: rf,
					Note: "cache-free RBACManager (warm_decision field) vs reference policy model (cache_free_decision field)"})
			}
		}
		if want {
			exp.WriteByte('1')
		} else {
			exp.WriteByte('0')
		}
		if it.req == nil {
			continue // unauthenticated: no permission check is reachable; covered by the authenticate path
		}
		res.compared += 2
		if single[i].Allowed != want {
			res.divs = append(res.divs, divergence{Path: "single", Cell: it.c, Warm: single[i].Allowed, Expected: want, Source: single[i].Source})
		}
		if batch[i] == nil || batch[i].Allowed != want {
			d := divergence{Path: "batch", Cell: it.c, Expected: want}
			if batch[i] != nil {
				d.Warm, d.Source = batch[i].Allowed, batch[i].Source
			} else {
				d.Note = "nil batch result"
			}
			res.divs = append(res.divs, d)
		}
	}
	res.expected = exp.String()
	return res
}

// ---------------------------------------------------------------------------
// Running one history
// ---------------------------------------------------------------------------

type c20Replay struct {
	Mode     string       `json:"mode"`
	Family   string       `json:"family"`
	History  []Op         `json:"history"`
	Step     int          `json:"failing_step"`
	Op       string       `json:"failing_op"`
	Diverged []divergence `json:"disagreements"`
	Replay   string       `json:"how_to_replay"`
}

func sigFor(mode, kind string, d divergence) string {
	switch d.Path {
	case "reference":
		return "policy: cache-free evaluator disagrees with the reference policy model"
	case "authenticate":
		if d.Warm {
			return fmt.Sprintf("%s %s: token that must not authenticate still passes authentication", mode, kind)
		}
		return fmt.Sprintf("%s %s: valid token fails authentication", mode, kind)
	}
	return fmt.Sprintf("%s %s: cached permission decision not refreshed", mode, kind)
}

// runHistory executes ops in a fresh environment, observing the full grid
// before the first and after every mutation. It returns the number of
// mutations after which the expected decisions changed.
type pendingViolation struct {
	sig    string
	detail any
}

// The violations found are returned, not reported, so that the caller can
// report them in job order whatever the worker scheduling was.
func runHistory(c *vlib.Ctx, mode, family string, ops []Op, valueSeed uint64, id string) (int, []pendingViolation) {
	var pend []pendingViolation
	e := newEnv(mode)
	defer e.close()
	h := newHist(e, valueSeed)
	done := make([]Op, 0, len(ops))
	prev := h.observe(false)
	changed := 0
	report := func(step int, kind string, g gridResult) {
		bySig := map[string][]divergence{}
		for _, d := range g.divs {
			s := sigFor(mode, kind, d)
			bySig[s] = append(bySig[s], d)
		}
		sigs := make([]string, 0, len(bySig))
		for s := range bySig {
			sigs = append(sigs, s)
		}
		sort.Strings(sigs)
		for _, s := range sigs {
			ds := bySig[s]
			if len(ds) > 6 {
				ds = ds[:6]
			}
			c.Count("disagreements", int64(len(bySig[s])))
			pend = append(pend, pendingViolation{s, c20Replay{Mode: mode, Family: family, History: append([]Op(nil), done...), Step: step, Op: kind,
				Diverged: ds, Replay: "./check C20 --replay <this file>"}})
		}
	}
	if len(prev.divs) > 0 {
		report(-1, "(initial state)", prev)
	}
	for i := range ops {
		op := ops[i]
		h.exec(&op)
		done = append(done, op)
		g := h.observe(i%2 == 0)
		c.Eval()
		c.Count("decisions_compared", int64(g.compared))
		c.Count("mutations", 1)
		if op.Err != "" {
			c.Count("mutations_rejected", 1)
		}
		if g.expected != prev.expected {
			changed++
			c.Count("decision_changing_"+op.Kind, 1)
			c.Nontrivial(fmt.Sprintf("%s|%s|%d|%s", mode, id, i, op.Kind))
		}
		if len(g.divs) > 0 {
			report(i, op.Kind, g)
			// resynchronise so that a later, innocent mutation is not blamed
			e.rm.InvalidateAllCache()
			e.am.InvalidateCache()
			g = h.observe(false)
		}
		prev = g
	}
	// oracle self-check: with the token cache emptied, the real VerifyToken must
	// agree with the stored-row reading used above.
	e.am.InvalidateCache()
	e.rm.InvalidateAllCache()
	var selfDivs []divergence
	for _, d := range h.observe(false).divs {
		if d.Path != "reference" { // reference disagreements were reported at their step
			selfDivs = append(selfDivs, d)
		}
	}
	if len(selfDivs) > 0 {
		c.Count("selfcheck_disagreements", int64(len(selfDivs)))
		ds := selfDivs
		if len(ds) > 6 {
			ds = ds[:6]
		}
		pend = append(pend, pendingViolation{"self-check: evaluation with freshly emptied caches disagrees with the cache-free evaluator",
			c20Replay{Mode: mode, Family: family, History: done, Step: len(done), Op: "(final, caches emptied)", Diverged: ds}})
	}
	if e.mode == modeCluster {
		c.Count("cluster_commands_applied", e.prop.n.Load())
		c.Count("cluster_apply_callback_errors", e.applyErrs.Load())
	}
	return changed, pend
}

// ---------------------------------------------------------------------------
// Generators
// ---------------------------------------------------------------------------

func pick[T any](r *rand.Rand, xs []T) T { return xs[r.IntN(len(xs))] }

func permSubset(r *rand.Rand) []string {
	for {
		var out []string
		for _, p := range allPerms {
			w := 2
			if p == "admin" {
				w = 6
			}
			if r.IntN(w) == 0 {
				out = append(out, p)
			}
		}
		if len(out) > 0 {
			return out
		}
	}
}

// shadow is the generator's guess of which slots are bound and to which parent;
// it only steers generation (the executor and the oracle never read it).
type shadow struct {
	tok  [nTok]bool
	org  [nOrg]bool
	team [nTeam]int // org slot, -1 = unbound
	role [nRole]int // team slot, -1 = unbound
	mp   [nMP]int   // role slot, -1 = unbound
}

func (s *shadow) dropRole(x int) {
	s.role[x] = -1
	for m := range s.mp {
		if s.mp[m] == x {
			s.mp[m] = -1
		}
	}
}

func (s *shadow) dropTeam(x int) {
	s.team[x] = -1
	for ro := range s.role {
		if s.role[ro] == x {
			s.dropRole(ro)
		}
	}
}

func (s *shadow) dropOrg(x int) {
	s.org[x] = false
	for t := range s.team {
		if s.team[t] == x {
			s.dropTeam(t)
		}
	}
}

// genRandom produces a history of n mutations. Operations whose target is not
// bound are mostly (85%) replaced by the creation of the missing entity, so
// that histories build structure quickly; the rest hit the not-found paths.
func genRandom(r *rand.Rand, n int) []Op {
	sh := &shadow{team: [nTeam]int{-1, -1, -1}, role: [nRole]int{-1, -1, -1}, mp: [nMP]int{-1, -1, -1, -1}}
	var ops []Op
	anyOf := func(n int, ok func(int) bool) (int, bool) {
		var idx []int
		for i := 0; i < n; i++ {
			if ok(i) {
				idx = append(idx, i)
			}
		}
		if len(idx) == 0 {
			return r.IntN(n), false
		}
		return idx[r.IntN(len(idx))], true
	}
	freeOr := func(n int, used func(int) bool) int {
		if i, ok := anyOf(n, func(i int) bool { return !used(i) }); ok {
			return i
		}
		return r.IntN(n)
	}
	orgB := func() (int, bool) { return anyOf(nOrg, func(i int) bool { return sh.org[i] }) }
	teamB := func() (int, bool) { return anyOf(nTeam, func(i int) bool { return sh.team[i] >= 0 }) }
	roleB := func() (int, bool) { return anyOf(nRole, func(i int) bool { return sh.role[i] >= 0 }) }
	mpB := func() (int, bool) { return anyOf(nMP, func(i int) bool { return sh.mp[i] >= 0 }) }
	tokB := func() (int, bool) { return anyOf(nTok, func(i int) bool { return sh.tok[i] }) }
	build := func() bool { return r.IntN(100) < 85 }

	mkOrg := func() Op {
		a := freeOr(nOrg, func(i int) bool { return sh.org[i] })
		sh.org[a] = true
		return Op{Kind: "OrgCreate", A: a}
	}
	mkTeam := func() Op {
		b, ok := orgB()
		if !ok && build() {
			return mkOrg()
		}
		a := freeOr(nTeam, func(i int) bool { return sh.team[i] >= 0 })
		if ok {
			sh.team[a] = b
		}
		return Op{Kind: "TeamCreate", A: a, B: b}
	}
	mkRole := func() Op {
		b, ok := teamB()
		if !ok && build() {
			return mkTeam()
		}
		a := freeOr(nRole, func(i int) bool { return sh.role[i] >= 0 })
		if ok {
			sh.role[a] = b
		}
		return Op{Kind: "RoleCreate", A: a, B: b, S: pick(r, dbPatterns), P: permSubset(r)}
	}
	mkMP := func() Op {
		b, ok := roleB()
		if !ok && build() {
			return mkRole()
		}
		a := freeOr(nMP, func(i int) bool { return sh.mp[i] >= 0 })
		if ok {
			sh.mp[a] = b
		}
		return Op{Kind: "MPermCreate", A: a, B: b, S: pick(r, msPatterns), P: permSubset(r)}
	}
	mkTok := func() Op {
		a := freeOr(nTok, func(i int) bool { return sh.tok[i] })
		kind := "TokenCreate"
		if x := r.IntN(12); x == 0 {
			kind = "TokenCreateExpired"
		} else if x == 1 {
			kind = "TokenCreateExpiring"
		}
		sh.tok[a] = true
		return Op{Kind: kind, A: a, B: pick(r, []int{0, 1, 2, 2}), S: pick(r, tokPermSets)} // B: 0 CreateToken, 1 CreateTokenWithValue, 2 legacy-hash row
	}

	for len(ops) < n {
		var o Op
		switch k := r.IntN(100); {
		case k < 4:
			o = mkOrg()
		case k < 7:
			a, ok := orgB()
			if !ok && build() {
				o = mkOrg()
				break
			}
			o = Op{Kind: pick(r, []string{"OrgRename", "OrgDisable", "OrgEnable"}), A: a}
		case k < 11:
			a, ok := orgB()
			if !ok && build() {
				o = mkOrg()
				break
			}
			o = Op{Kind: "OrgDelete", A: a}
			sh.dropOrg(a)
		case k < 17:
			o = mkTeam()
		case k < 26:
			a, ok := teamB()
			if !ok && build() {
				o = mkTeam()
				break
			}
			o = Op{Kind: pick(r, []string{"TeamRename", "TeamDisable", "TeamEnable", "TeamDisable", "TeamEnable"}), A: a}
		case k < 30:
			a, ok := teamB()
			if !ok && build() {
				o = mkTeam()
				break
			}
			o = Op{Kind: "TeamDelete", A: a}
			sh.dropTeam(a)
		case k < 38:
			o = mkRole()
		case k < 46:
			a, ok := roleB()
			if !ok && build() {
				o = mkRole()
				break
			}
			o = Op{Kind: "RoleUpdate", A: a}
			if r.IntN(2) == 0 {
				o.S = pick(r, dbPatterns)
			}
			if o.S == "" || r.IntN(2) == 0 {
				o.P = permSubset(r)
			}
		case k < 50:
			a, ok := roleB()
			if !ok && build() {
				o = mkRole()
				break
			}
			o = Op{Kind: "RoleDelete", A: a}
			sh.dropRole(a)
		case k < 56:
			o = mkMP()
		case k < 61:
			a, ok := mpB()
			if !ok && build() {
				o = mkMP()
				break
			}
			o = Op{Kind: "MPermDelete", A: a}
			sh.mp[a] = -1
		case k < 72:
			a, okT := tokB()
			if !okT && build() {
				o = mkTok()
				break
			}
			b, okTeam := teamB()
			if !okTeam && build() {
				o = mkTeam()
				break
			}
			o = Op{Kind: "MemberAdd", A: a, B: b}
		case k < 78:
			a, _ := tokB()
			b, _ := teamB()
			o = Op{Kind: "MemberRemove", A: a, B: b}
		case k < 83:
			if _, ok := anyOf(nTok, func(i int) bool { return !sh.tok[i] }); !ok && r.IntN(4) != 0 {
				continue // all slots alive: overwrite one only sometimes
			}
			o = mkTok()
		case k < 91:
			a, ok := tokB()
			if !ok && build() {
				o = mkTok()
				break
			}
			o = Op{Kind: "TokenSetPerms", A: a, S: pick(r, tokPermSets[:6])}
		case k < 93:
			a, _ := tokB()
			o = Op{Kind: pick(r, []string{"TokenRename", "TokenExpire", "TokenExtend"}), A: a}
		case k < 95:
			a, _ := tokB()
			o = Op{Kind: "TokenRevoke", A: a}
			if r.IntN(2) == 0 {
				sh.tok[a] = false // let the slot be re-issued
			}
		case k < 97:
			a, _ := tokB()
			o = Op{Kind: "TokenDelete", A: a}
			sh.tok[a] = false
		default:
			a, _ := tokB()
			o = Op{Kind: "TokenRotate", A: a}
		}
		ops = append(ops, o)
	}
	return ops
}

// scenario is the fixed prefix of the enumerated histories: token 0 gets its
// access only through org0/team0/role0 (+ a measurement permission), token 1
// only through its own permissions, and both are members-capable.
func scenario() []Op {
	return []Op{
		{Kind: "OrgCreate", A: 0},
		{Kind: "TeamCreate", A: 0, B: 0},
		{Kind: "RoleCreate", A: 0, B: 0, S: "prod_*", P: []string{"read", "write"}},
		{Kind: "RoleCreate", A: 1, B: 0, S: "dev", P: []string{"read"}},
		{Kind: "MPermCreate", A: 0, B: 0, S: "cpu_*", P: []string{"read"}},
		{Kind: "TokenCreate", A: 0, B: 2, S: auth.PermissionsNone},
		{Kind: "MemberAdd", A: 0, B: 0},
		{Kind: "TokenCreate", A: 1, B: 2, S: "read,write"},
	}
}

// alphabet of the enumerated part: every kind of mutation that can take access
// away, give it back, or change who the token is.
func alphabet() []Op {
	return []Op{
		{Kind: "OrgDelete", A: 0},
		{Kind: "OrgDisable", A: 0},
		{Kind: "TeamDisable", A: 0},
		{Kind: "TeamEnable", A: 0},
		{Kind: "TeamDelete", A: 0},
		{Kind: "RoleUpdate", A: 0, P: []string{"read"}},
		{Kind: "RoleUpdate", A: 0, S: "staging"},
		{Kind: "RoleDelete", A: 0},
		{Kind: "MPermDelete", A: 0},
		{Kind: "MPermCreate", A: 1, B: 0, S: "mem_*", P: []string{"write"}},
		{Kind: "MemberRemove", A: 0, B: 0},
		{Kind: "MemberAdd", A: 0, B: 0},
		{Kind: "MemberAdd", A: 1, B: 0},
		{Kind: "TokenSetPerms", A: 1, S: "read"},
		{Kind: "TokenSetPerms", A: 0, S: "delete"},
		{Kind: "TokenSetPerms", A: 1, S: "admin"},
		{Kind: "TokenRevoke", A: 0},
		{Kind: "TokenRotate", A: 0},
		{Kind: "TokenDelete", A: 0},
	}
}

func enumerate(maxLen int) [][]Op {
	al := alphabet()
	var out [][]Op
	level := [][]Op{nil}
	for l := 1; l <= maxLen; l++ { // shortest first: the first replay of a root cause is minimal
		var next [][]Op
		for _, cur := range level {
			for _, a := range al {
				seq := append(append([]Op(nil), cur...), a)
				next = append(next, seq)
				out = append(out, append(scenario(), seq...))
			}
		}
		level = next
	}
	return out
}

// ---------------------------------------------------------------------------
// Forced schedule: a check overlapping a mutation must not leave its
// pre-mutation decision behind for checks that start after the mutation returned
// ---------------------------------------------------------------------------

type c20Overlap struct {
	Mode     string `json:"mode"`
	Path     string `json:"path"`
	Mutation Op     `json:"mutation"`
	Parked   string `json:"check_parked_at"`
	Before   bool   `json:"decision_computed_before_mutation"`
	After    bool   `json:"decision_of_check_started_after_mutation_returned"`
	Expected bool   `json:"cache_free_decision"`
	Note     string `json:"note"`
}

func runOverlap(c *vlib.Ctx, mode, path string, mut Op) {
	e := newEnv(mode)
	defer e.close()
	h := newHist(e, 7)
	for _, o := range scenario() {
		o := o
		h.exec(&o)
		if o.Err != "" {
			panic("scenario op failed: " + o.String() + ": " + o.Err)
		}
	}
	info := e.am.VerifyToken(h.toks[0].value)
	if info == nil {
		panic("scenario token does not verify")
	}
	// the batch path asks four keys the scenario grants through the team's role, all
	// cache misses: the check is parked after the FIRST of them was computed, so the
	// other three are computed (and possibly cached) after the mutation returned
	keys := [][2]string{{"prod_eu", "write"}}
	if path == "batch" {
		keys = append(keys, [2]string{"prod", "read"}, [2]string{"prod", "write"}, [2]string{"prod_eu", "read"})
	}
	mkReqs := func(ti *auth.TokenInfo) []*auth.PermissionCheckRequest {
		var rs []*auth.PermissionCheckRequest
		for _, k := range keys {
			rs = append(rs, &auth.PermissionCheckRequest{TokenInfo: ti, Database: k[0], Measurement: "", Permission: k[1]})
		}
		return rs
	}
	point := "rbac.check.computed"
	if path == "batch" {
		point = "rbac.batch.computed"
	}
	parked := make(chan struct{}, 1)
	release := make(chan struct{})
	verifhook.Set(point, verifhook.Rule{Action: "call", Nth: 1, Fn: func(string) error {
		parked <- struct{}{}
		<-release
		return nil
	}})
	defer verifhook.Clear(point)
	got := make(chan bool, 1)
	go func() {
		if path == "batch" {
			got <- e.rm.CheckPermissionsBatch(mkReqs(info))[0].Allowed
		} else {
			got <- e.rm.CheckPermission(mkReqs(info)[0]).Allowed
		}
	}()
	select {
	case <-parked:
	case <-time.After(20 * time.Second):
		close(release)
		c.Inconclusive("overlap schedule: check never reached " + point)
		return
	}
	h.exec(&mut) // runs to completion while the check is parked after computing
	close(release)
	before := <-got
	verifhook.Clear(point)

	// checks that START now, after the mutation returned: every key, single and batched
	ninfo := e.am.VerifyToken(h.toks[0].value)
	fresh := e.freshRBAC()
	defer fresh.Close()
	row, _ := e.am.GetTokenByID(h.toks[0].id)
	c.Eval()
	c.Count("overlap_schedules", 1)
	for ki, k := range keys {
		var afterSingle, afterBatch bool
		if ninfo != nil {
			rs := mkReqs(ninfo)
			afterSingle = e.rm.CheckPermission(rs[ki]).Allowed
			afterBatch = e.rm.CheckPermissionsBatch(rs)[ki].Allowed
		}
		want := false
		if row != nil && row.Enabled && ninfo != nil {
			want = fresh.CheckPermission(&auth.PermissionCheckRequest{TokenInfo: row, Database: k[0], Measurement: "", Permission: k[1]}).Allowed
		}
		if ki == 0 && before && !want {
			c.Nontrivial("overlap|" + mode + "|" + path + "|" + mut.String())
		}
		c.Count("overlap_keys_checked_after_mutation", 1)
		if afterSingle != want || afterBatch != want {
			sig := fmt.Sprintf("permission check overlapping a mutation leaves its pre-mutation decision cached (%s path)", path)
			if ki > 0 {
				sig = "batch overlapping a mutation: a request of the batch that was computed AFTER the mutation returned is cached with the pre-mutation decision"
			}
			c.Violation(sig, c20Overlap{Mode: mode, Path: path, Mutation: mut, Parked: point, Before: before, After: afterSingle || afterBatch, Expected: want,
				Note: fmt.Sprintf("key %s/%s (request %d of the batch); the parked check started before the mutation; only checks started after the mutation returned are constrained (single=%v batch=%v)", k[0], k[1], ki+1, afterSingle, afterBatch)})
			break
		}
	}
}

// runLoadWindow: the check misses every cache and loads the token's RBAC rows; while it
// is between that load and the insert into the token-data cache (a bounded delay at
// the hook point rbac.token_data.loaded), the mutation is started. In the code as it
// stands the load runs under the token-cache lock, so the mutation's invalidation
// waits and then removes what the check inserted; a load outside that lock lets the
// mutation finish first and the stale rows stay cached. Only a check that starts after
// the mutation returned is constrained.
func runLoadWindow(c *vlib.Ctx, mode, path string, mut Op) {
	e := newEnv(mode)
	defer e.close()
	h := newHist(e, 7)
	for _, o := range scenario() {
		o := o
		h.exec(&o)
		if o.Err != "" {
			panic("scenario op failed: " + o.String() + ": " + o.Err)
		}
	}
	info := e.am.VerifyToken(h.toks[0].value)
	if info == nil {
		panic("scenario token does not verify")
	}
	e.rm.InvalidateAllCache() // cold: the check has to load the token's rows
	req := &auth.PermissionCheckRequest{TokenInfo: info, Database: "prod_eu", Measurement: "", Permission: "write"}
	const point = "rbac.token_data.loaded"
	loaded := make(chan struct{}, 64)
	verifhook.Set(point, verifhook.Rule{Action: "call", Fn: func(string) error {
		select {
		case loaded <- struct{}{}:
		default:
		}
		time.Sleep(40 * time.Millisecond)
		return nil
	}})
	defer verifhook.Clear(point)
	got := make(chan bool, 1)
	go func() {
		if path == "batch" {
			got <- e.rm.CheckPermissionsBatch([]*auth.PermissionCheckRequest{req})[0].Allowed
		} else {
			got <- e.rm.CheckPermission(req).Allowed
		}
	}()
	select {
	case <-loaded:
	case <-time.After(20 * time.Second):
		c.Inconclusive("load-window schedule: check never reached " + point)
		<-got
		return
	}
	h.exec(&mut) // started while the check sits between its load and the cache insert
	before := <-got
	verifhook.Clear(point)

	ninfo := e.am.VerifyToken(h.toks[0].value)
	var after bool
	if ninfo != nil {
		nreq := &auth.PermissionCheckRequest{TokenInfo: ninfo, Database: "prod_eu", Measurement: "", Permission: "write"}
		if path == "batch" {
			after = e.rm.CheckPermissionsBatch([]*auth.PermissionCheckRequest{nreq})[0].Allowed
		} else {
			after = e.rm.CheckPermission(nreq).Allowed
		}
	}
	fresh := e.freshRBAC()
	defer fresh.Close()
	want := false
	if row, _ := e.am.GetTokenByID(h.toks[0].id); row != nil && row.Enabled && ninfo != nil {
		want = fresh.CheckPermission(&auth.PermissionCheckRequest{TokenInfo: row, Database: "prod_eu", Measurement: "", Permission: "write"}).Allowed
	}
	c.Eval()
	c.Count("load_window_schedules", 1)
	if before && !want {
		c.Nontrivial("loadwindow|" + mode + "|" + path + "|" + mut.String())
	}
	if after != want {
		c.Violation(fmt.Sprintf("mutation that completes while a check is loading the token's RBAC rows is not reflected by later checks: stale rows stay in the token-data cache (%s path)", path),
			c20Overlap{Mode: mode, Path: path, Mutation: mut, Parked: point + " (bounded delay)", Before: before, After: after, Expected: want,
				Note: "the delayed check started before the mutation; only the check started after the mutation returned is constrained"})
	}
}

// ---------------------------------------------------------------------------
// Entry point
// ---------------------------------------------------------------------------

func checkC20(c *vlib.Ctx) {
	c.Rule("histories of RBAC/token mutations over 3 tokens x 2 orgs x 3 teams x 3 roles x 4 measurement permissions, run through the real AuthManager/RBACManager (direct SQLite mode and cluster mode = real ClusterFSM + Apply* callbacks); before and after every mutation the whole grid (token value x 4 databases x 4 measurements x 4 permissions, single and batched) is asked of the warm managers and compared with a cache-free RBACManager over the same database; a step is non-trivial when the mutation changed at least one expected decision; plus a pressure family with RBACManagerConfig.MaxCacheSize in {1,2,4,8}, AuthManager cache size in {1,2,4,1000}, 8-16 tokens x 24 keys, where every check issued (bursts of other tokens' keys before each mutation, the target token's keys straight after it) is compared with the cache-free evaluator")
	c.Assume("cache-free evaluator = a new RBACManager (empty caches) over the same *sql.DB, given the token row read by GetTokenByID; token validity = row exists, enabled, presented value is the current one (generator ground truth), not expired")
	c.Assume("cluster mode: a synchronous single-node proposer stands in for hashicorp/raft (commit = immediate apply with increasing log index); FSM callbacks wired as in cmd/arc/main.go")
	c.Assume("reference policy model (120 lines, written from the code's documented rules) is compared with the cache-free evaluator only; expiries are kept 5h away from now; cache TTLs are 6h so no verdict depends on a TTL")

	if c.Replay != "" {
		var pr pReplay
		if err := vlib.LoadReplay(c.Replay, &pr); err == nil && len(pr.Case.Script) > 0 {
			for i := 0; i < 300; i++ {
				pend := runPressure(c, pr.Case, "replay")
				for _, p := range pend {
					c.Violation(p.sig, p.detail)
				}
				if len(pend) > 0 {
					fmt.Printf("reproduced at repetition %d\n", i+1)
					break
				}
			}
			c.Floor(0)
			return
		}
		var r c20Replay
		if err := vlib.LoadReplay(c.Replay, &r); err != nil {
			panic(err)
		}
		if len(r.History) == 0 {
			var o c20Overlap
			_ = vlib.LoadReplay(c.Replay, &o)
			if strings.HasPrefix(o.Parked, "rbac.token_data.loaded") {
				runLoadWindow(c, o.Mode, o.Path, o.Mutation)
			} else {
				runOverlap(c, o.Mode, o.Path, o.Mutation)
				runOverlap(c, o.Mode, o.Path, o.Mutation)
			}
			c.Floor(0)
			return
		}
		ops := make([]Op, len(r.History))
		for i, o := range r.History {
			o.Err = ""
			ops[i] = o
		}
		_, pend := runHistory(c, r.Mode, "replay", ops, 1, "replay")
		for _, p := range pend {
			c.Violation(p.sig, p.detail)
		}
		c.Floor(0)
		return
	}

	type job struct {
		mode, family, id string
		ops              []Op
		seed             uint64
		pc               *pCase
	}
	var jobs []job
	// enumerated (short, scenario-based) histories first: their replays are the
	// most readable ones for a root cause that both families reach
	enumLen := c.N(2, 3)
	for _, mode := range []string{modeDirect, modeCluster} {
		for i, ops := range enumerate(enumLen) {
			jobs = append(jobs, job{mode: mode, family: "enumerated", id: fmt.Sprintf("e%d", i), ops: ops, seed: uint64(i) + 1})
		}
	}
	nRandom := c.N(100, 2000) // per mode
	for _, mode := range []string{modeDirect, modeCluster} {
		rng := c.Rand("random-" + mode)
		for i := 0; i < nRandom; i++ {
			n := 12 + rng.IntN(29) // 12..40
			jobs = append(jobs, job{mode: mode, family: "random", id: fmt.Sprintf("r%d", i), ops: genRandom(rng, n), seed: rng.Uint64()})
		}
	}
	// bounded cache capacities, more tokens and keys than fit (see c20p.go)
	nPressure := c.N(30, 450) // per mode and capacity
	pSteps := c.N(25, 30)
	for _, mode := range []string{modeDirect, modeCluster} {
		rng := c.Rand("pressure-" + mode)
		for _, size := range []int{1, 2, 4, 8} {
			for i := 0; i < nPressure; i++ {
				pc := genPressure(rng, mode, size, pSteps)
				jobs = append(jobs, job{mode: mode, family: "pressure", id: fmt.Sprintf("p%d_%d", size, i), pc: &pc})
			}
		}
	}
	c.Extra("pressure_family", map[string]any{"cases_per_mode_and_capacity": nPressure, "rbac_max_cache_size": []int{1, 2, 4, 8},
		"auth_max_cache_size": []int{1, 2, 4, 1000}, "tokens": "8..16", "keys_per_token": len(checkDBs) * len(pMeas) * len(pPerms), "mutation_steps_per_case": pSteps})
	c.Extra("histories", map[string]int{"random_per_mode": nRandom, "enumerated_per_mode": len(enumerate(enumLen)), "enumerated_max_suffix_len": enumLen, "alphabet": len(alphabet())})

	// overlap schedules use the process-global hook registry: run them alone first
	for _, mode := range []string{modeDirect, modeCluster} {
		for _, path := range []string{"single", "batch"} {
			for _, m := range []Op{
				{Kind: "RoleDelete", A: 0}, {Kind: "TeamDisable", A: 0}, {Kind: "MemberRemove", A: 0, B: 0},
				{Kind: "RoleUpdate", A: 0, P: []string{"read"}}, {Kind: "TeamDelete", A: 0}, {Kind: "OrgDelete", A: 0},
			} {
				runOverlap(c, mode, path, m)
				runLoadWindow(c, mode, path, m)
			}
		}
	}

	var wg sync.WaitGroup
	ch := make(chan int)
	var mu sync.Mutex
	histChanged := 0
	pending := make([][]pendingViolation, len(jobs))
	for w := 0; w < 16; w++ {
		wg.Add(1)
		go func() {
			defer wg.Done()
			for ji := range ch {
				j := jobs[ji]
				if j.pc != nil {
					pend := runPressure(c, *j.pc, j.mode+j.id)
					mu.Lock()
					pending[ji] = pend
					mu.Unlock()
					continue
				}
				n, pend := runHistory(c, j.mode, j.family, j.ops, j.seed, j.family+j.id)
				mu.Lock()
				if n > 0 {
					histChanged++
				}
				pending[ji] = pend
				mu.Unlock()
				c.Count("histories_"+j.family+"_"+j.mode, 1)
			}
		}()
	}
	for ji := range jobs {
		ch <- ji
	}
	close(ch)
	wg.Wait()
	for _, pend := range pending {
		for _, p := range pend {
			c.Violation(p.sig, p.detail)
		}
	}
	c.Count("histories_with_decision_change", int64(histChanged))
	if len(jobs) > 0 {
		j := jobs[0]
		hs := sha256.Sum256([]byte(vlib.JSON(j.ops)))
		c.Sample(map[string]any{"mode": j.mode, "family": j.family, "ops": len(j.ops), "first_ops": j.ops[:min(6, len(j.ops))], "sha": hex.EncodeToString(hs[:6])})
	}
	c.Floor(c.N(2500, 40000))
}
