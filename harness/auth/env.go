package main

import (
	"context"
	"database/sql"
	"encoding/json"
	"fmt"
	"os"
	"path/filepath"
	"sync"
	"sync/atomic"
	"time"

	hraft "github.com/hashicorp/raft"
	"github.com/rs/zerolog"

	"github.com/basekick-labs/arc/internal/auth"
	araft "github.com/basekick-labs/arc/internal/cluster/raft"
	"github.com/basekick-labs/arc/internal/license"
	"github.com/basekick-labs/arc/internal/zzverif/vlib"
)

const (
	modeDirect  = "direct"
	modeCluster = "cluster"
)

// Cache lifetimes are set far above any run time so that no verdict depends on
// a TTL expiring (a shorter TTL could only hide staleness, never create it).
const longTTL = 6 * time.Hour

var bg = context.Background()

// env is one isolated auth stack: a real AuthManager over its own SQLite file,
// a real RBACManager over the same *sql.DB with the RBAC licence gate open, and
// - in cluster mode - a real ClusterFSM whose apply callbacks are wired to the
// managers' Apply* methods exactly as cmd/arc/main.go does, fed by a
// synchronous single-node proposer that plays hashicorp/raft's role.
type env struct {
	mode string
	dir  string
	am   *auth.AuthManager
	rm   *auth.RBACManager
	lic  *license.Client
	fsm  *araft.ClusterFSM
	prop *syncProposer

	applyErrs atomic.Int64 // Apply* callbacks that returned an error (logged only in arc)
}

func rbacLicense() *license.Client {
	return license.NewClientForVerif(&license.License{
		LicenseKey: "verif", CustomerID: "verif", Tier: license.TierEnterprise,
		Features: []string{license.FeatureRBAC}, Status: "active",
		ExpiresAt: time.Now().Add(10 * 365 * 24 * time.Hour), DaysRemaining: 3650,
	})
}

func newEnv(mode string) *env { return newEnvSized(mode, 0, 1000) }

// newEnvSized builds the stack with a bounded RBAC cache capacity (both the
// per-token data cache and the decision cache take RBACManagerConfig.MaxCacheSize;
// 0 = arc's default 10000) and a bounded AuthManager token cache.
func newEnvSized(mode string, rbacMax, authMax int) *env {
	e := &env{mode: mode, dir: vlib.TempDir("auth")}
	am, err := auth.NewAuthManager(filepath.Join(e.dir, "auth.db"), longTTL, authMax, zerolog.Nop())
	if err != nil {
		panic(fmt.Sprintf("NewAuthManager: %v", err))
	}
	e.am = am
	e.lic = rbacLicense()
	e.rm = auth.NewRBACManager(&auth.RBACManagerConfig{DB: am.GetDB(), LicenseClient: e.lic, Logger: zerolog.Nop(), CacheTTL: longTTL, MaxCacheSize: rbacMax})
	if !e.rm.IsRBACEnabled() {
		panic("RBAC licence gate is closed: verif licence shim not effective")
	}
	if mode == modeCluster {
		e.wireCluster()
	}
	return e
}

// freshRBAC returns a new RBACManager with empty caches over the same database:
// the cache-free evaluator. The caller closes it.
func (e *env) freshRBAC() *auth.RBACManager {
	return auth.NewRBACManager(&auth.RBACManagerConfig{DB: e.am.GetDB(), LicenseClient: e.lic, Logger: zerolog.Nop(), CacheTTL: longTTL})
}

func (e *env) db() *sql.DB { return e.am.GetDB() }

func (e *env) close() {
	_ = e.rm.Close()
	_ = e.am.Close()
	_ = os.RemoveAll(e.dir)
}

// syncProposer applies every proposed command to the FSM immediately, one at a
// time, with increasing log indexes (the FSM stamps entity ids from them).
type syncProposer struct {
	mu  sync.Mutex
	idx uint64
	fsm *araft.ClusterFSM
	n   atomic.Int64
}

func (p *syncProposer) IsLeader() bool { return true }

func (p *syncProposer) Propose(_ context.Context, cmdType uint8, payload []byte, _ time.Duration) error {
	data, err := json.Marshal(&araft.Command{Type: araft.CommandType(cmdType), Payload: payload})
	if err != nil {
		return err
	}
	p.mu.Lock()
	p.idx++
	resp := p.fsm.Apply(&hraft.Log{Index: p.idx, Term: 1, Type: hraft.LogCommand, Data: data})
	p.mu.Unlock()
	p.n.Add(1)
	if aerr, ok := resp.(error); ok && aerr != nil {
		// same shape as cluster.wrapApplyError
		return fmt.Errorf("%w: %w", auth.ErrApplyFailed, aerr)
	}
	return nil
}

func (e *env) wireCluster() {
	e.fsm = araft.NewClusterFSM(zerolog.Nop())
	e.prop = &syncProposer{fsm: e.fsm, idx: 100}
	note := func(err error) {
		if err != nil {
			e.applyErrs.Add(1)
		}
	}
	tok := func(t *araft.TokenEntry) auth.ClusterTokenEntry {
		return auth.ClusterTokenEntry{ID: t.ID, Name: t.Name, Description: t.Description, Permissions: t.Permissions,
			TokenHash: t.TokenHash, TokenPrefix: t.TokenPrefix, CreatedAtUnixNano: t.CreatedAtUnixNano,
			ExpiresAtUnixNano: t.ExpiresAtUnixNano, Enabled: t.Enabled, LSN: t.LSN}
	}
	org := func(o *araft.OrganizationEntry) auth.ClusterOrganizationEntry {
		return auth.ClusterOrganizationEntry{ID: o.ID, Name: o.Name, Description: o.Description,
			CreatedAtUnixNano: o.CreatedAtUnixNano, UpdatedAtUnixNano: o.UpdatedAtUnixNano, Enabled: o.Enabled, LSN: o.LSN}
	}
	team := func(t *araft.TeamEntry) auth.ClusterTeamEntry {
		return auth.ClusterTeamEntry{ID: t.ID, OrganizationID: t.OrganizationID, Name: t.Name, Description: t.Description,
			CreatedAtUnixNano: t.CreatedAtUnixNano, UpdatedAtUnixNano: t.UpdatedAtUnixNano, Enabled: t.Enabled, LSN: t.LSN}
	}
	role := func(r *araft.RoleEntry) auth.ClusterRoleEntry {
		return auth.ClusterRoleEntry{ID: r.ID, TeamID: r.TeamID, DatabasePattern: r.DatabasePattern, Permissions: r.Permissions,
			CreatedAtUnixNano: r.CreatedAtUnixNano, LSN: r.LSN}
	}
	mp := func(m *araft.MeasurementPermissionEntry) auth.ClusterMeasurementPermissionEntry {
		return auth.ClusterMeasurementPermissionEntry{ID: m.ID, RoleID: m.RoleID, MeasurementPattern: m.MeasurementPattern,
			Permissions: m.Permissions, CreatedAtUnixNano: m.CreatedAtUnixNano, LSN: m.LSN}
	}
	mem := func(m *araft.TokenMembershipEntry) auth.ClusterTokenMembershipEntry {
		return auth.ClusterTokenMembershipEntry{ID: m.ID, TokenID: m.TokenID, TeamID: m.TeamID, CreatedAtUnixNano: m.CreatedAtUnixNano, LSN: m.LSN}
	}
	am, rm := e.am, e.rm
	// Same order as cmd/arc/main.go: callbacks first, then the proposer.
	e.fsm.SetAuthCallbacks(
		func(t *araft.TokenEntry) { note(am.ApplyCreateToken(tok(t))) },
		func(t *araft.TokenEntry) { note(am.ApplyUpdateToken(tok(t))) },
		func(id int64) { note(am.ApplyRevokeToken(id)) },
		func(id int64) { note(am.ApplyDeleteToken(id)) },
		func(id int64, h, p string, _ uint64) { note(am.ApplyRotateToken(id, h, p)) },
	)
	e.fsm.SetRBACCallbacks(
		func(o *araft.OrganizationEntry) { note(rm.ApplyCreateOrganization(org(o))) },
		func(o *araft.OrganizationEntry) { note(rm.ApplyUpdateOrganization(org(o))) },
		func(id int64) { note(rm.ApplyDeleteOrganization(id)) },
		func(t *araft.TeamEntry) { note(rm.ApplyCreateTeam(team(t))) },
		func(t *araft.TeamEntry) { note(rm.ApplyUpdateTeam(team(t))) },
		func(id int64) { note(rm.ApplyDeleteTeam(id)) },
		func(r *araft.RoleEntry) { note(rm.ApplyCreateRole(role(r))) },
		func(r *araft.RoleEntry) { note(rm.ApplyUpdateRole(role(r))) },
		func(id int64) { note(rm.ApplyDeleteRole(id)) },
		func(m *araft.MeasurementPermissionEntry) { note(rm.ApplyCreateMeasurementPermission(mp(m))) },
		func(id int64) { note(rm.ApplyDeleteMeasurementPermission(id)) },
		func(m *araft.TokenMembershipEntry) { note(rm.ApplyAddTokenToTeam(mem(m))) },
		func(tokenID, teamID int64) { note(rm.ApplyRemoveTokenFromTeam(tokenID, teamID)) },
	)
	am.SetRaftProposer(e.prop)
	rm.SetRaftProposer(e.prop)
}

// tokenIDByName finds a token's id (cluster-mode creates do not return it).
func (e *env) tokenIDByName(name string) int64 {
	var id int64
	if err := e.db().QueryRow(`SELECT id FROM api_tokens WHERE name = ?`, name).Scan(&id); err != nil {
		return 0
	}
	return id
}

// waitUntil polls cond; it returns false when the (generous) watchdog expires.
// It is only used to sequence goroutines, never to decide a verdict.
func waitUntil(d time.Duration, cond func() bool) bool {
	deadline := time.Now().Add(d)
	for !cond() {
		if time.Now().After(deadline) {
			return false
		}
		time.Sleep(100 * time.Microsecond)
	}
	return true
}
