package main

import (
	"fmt"
	"math/rand/v2"
	"sort"

	"github.com/basekick-labs/arc/internal/auth"
	"github.com/basekick-labs/arc/internal/zzverif/vlib"
)

// ---------------------------------------------------------------------------
// "pressure" family: bounded cache capacities and more tokens/keys than fit.
//
// RBACManagerConfig.MaxCacheSize bounds the per-token RBAC-data cache and the
// decision cache separately; each evicts an arbitrary entry of its own when
// full, so under pressure the two caches stop agreeing about which tokens
// they hold. An invalidation that consults one cache to decide what to purge
// in the other is only visible then. The oracle is unchanged: every answer of
// the warm manager must equal a cache-free RBACManager over the same database.
// ---------------------------------------------------------------------------

type pKey struct {
	Tok  int    `json:"token_slot"`
	DB   string `json:"database"`
	Meas string `json:"measurement"`
	Perm string `json:"permission"`
}

type pAction struct {
	Type  string `json:"type"` // "check" | "op"
	Phase string `json:"phase,omitempty"`
	Batch bool   `json:"batch,omitempty"`
	Keys  []pKey `json:"keys,omitempty"`
	Op    *Op    `json:"op,omitempty"`
}

type pCase struct {
	Mode    string    `json:"mode"`
	RBACMax int       `json:"rbac_max_cache_size"`
	AuthMax int       `json:"auth_max_cache_size"`
	Tokens  int       `json:"tokens"`
	Seed    uint64    `json:"value_seed"`
	Script  []pAction `json:"script"`
}

var (
	pMeas  = []string{"", "cpu", "cpu_load"}
	pPerms = []string{"read", "write"}
)

func randKey(r *rand.Rand, tok int) pKey {
	return pKey{Tok: tok, DB: pick(r, checkDBs), Meas: pick(r, pMeas), Perm: pick(r, pPerms)}
}

func genPressure(r *rand.Rand, mode string, rbacMax, steps int) pCase {
	pc := pCase{Mode: mode, RBACMax: rbacMax, AuthMax: pick(r, []int{1, 2, 4, 1000}), Tokens: 8 + r.IntN(9), Seed: r.Uint64()}
	op := func(o Op) { pc.Script = append(pc.Script, pAction{Type: "op", Phase: "setup", Op: &o}) }
	op(Op{Kind: "OrgCreate", A: 0})
	for t := 0; t < nTeam; t++ {
		op(Op{Kind: "TeamCreate", A: t, B: 0})
	}
	op(Op{Kind: "RoleCreate", A: 0, B: 0, S: "prod_*", P: []string{"read", "write"}})
	op(Op{Kind: "RoleCreate", A: 1, B: 1, S: "dev", P: []string{"read"}})
	op(Op{Kind: "RoleCreate", A: 2, B: 2, S: "*", P: []string{"read"}})
	op(Op{Kind: "MPermCreate", A: 0, B: 2, S: "cpu_*", P: []string{"read", "write"}})
	member := make([][nTeam]bool, pc.Tokens)
	for i := 0; i < pc.Tokens; i++ {
		op(Op{Kind: "TokenCreate", A: i, B: 2, S: pick(r, []string{auth.PermissionsNone, auth.PermissionsNone, "read", "write"})})
		for t := 0; t < nTeam; t++ {
			if r.IntN(5) < 2 {
				member[i][t] = true
				op(Op{Kind: "MemberAdd", A: i, B: t})
			}
		}
	}
	check := func(phase string, keys []pKey) {
		if len(keys) > 0 {
			pc.Script = append(pc.Script, pAction{Type: "check", Phase: phase, Batch: r.IntN(2) == 0, Keys: keys})
		}
	}
	for s := 0; s < steps; s++ {
		T := r.IntN(pc.Tokens)
		// the mutation of this step
		var m Op
		if r.IntN(10) < 7 {
			var in, out []int
			for t := 0; t < nTeam; t++ {
				if member[T][t] {
					in = append(in, t)
				} else {
					out = append(out, t)
				}
			}
			if len(out) == 0 || (len(in) > 0 && r.IntN(2) == 0) {
				t := pick(r, in)
				member[T][t] = false
				m = Op{Kind: "MemberRemove", A: T, B: t}
			} else {
				t := pick(r, out)
				member[T][t] = true
				m = Op{Kind: "MemberAdd", A: T, B: t}
			}
		} else {
			switch r.IntN(6) {
			case 0:
				m = Op{Kind: "TeamDisable", A: r.IntN(nTeam)}
			case 1:
				m = Op{Kind: "TeamEnable", A: r.IntN(nTeam)}
			case 2:
				m = Op{Kind: "RoleUpdate", A: r.IntN(nRole), P: permSubset(r)}
			case 3:
				m = Op{Kind: "RoleUpdate", A: r.IntN(nRole), S: pick(r, dbPatterns)}
			case 4:
				m = Op{Kind: "TokenSetPerms", A: T, S: pick(r, tokPermSets[:6])}
			default:
				m = Op{Kind: "TeamRename", A: r.IntN(nTeam)}
			}
		}
		// burst before it: unrelated traffic, then the target token's keys, then
		// first-time keys of other tokens (eviction pressure on both caches)
		for n := r.IntN(3); n > 0; n-- {
			var ks []pKey
			for k := 1 + r.IntN(4); k > 0; k-- {
				ks = append(ks, randKey(r, r.IntN(pc.Tokens)))
			}
			check("burst", ks)
		}
		var tkeys []pKey
		for k := 1 + r.IntN(3); k > 0; k-- {
			tkeys = append(tkeys, randKey(r, T))
		}
		check("target", tkeys)
		others := r.Perm(pc.Tokens)
		var press []pKey
		nPress := r.IntN(rbacMax + 3)
		for _, o := range others {
			if o != T && len(press) < nPress {
				press = append(press, randKey(r, o))
			}
		}
		if r.IntN(2) == 0 {
			check("pressure", press)
		} else {
			for _, k := range press {
				pc.Script = append(pc.Script, pAction{Type: "check", Phase: "pressure", Keys: []pKey{k}})
			}
		}
		if r.IntN(10) < 3 {
			check("repeat", []pKey{pick(r, tkeys)})
		}
		pc.Script = append(pc.Script, pAction{Type: "op", Phase: "mutation", Op: &m})
		// straight after the mutation: the target's keys, most recent first
		rev := make([]pKey, len(tkeys))
		for i, k := range tkeys {
			rev[len(tkeys)-1-i] = k
		}
		check("post", rev)
		var ks []pKey
		for k := r.IntN(4); k > 0; k-- {
			ks = append(ks, randKey(r, r.IntN(pc.Tokens)))
		}
		check("post-other", ks)
	}
	return pc
}

type pReplay struct {
	Case     pCase        `json:"pressure_case"`
	Action   int          `json:"failing_action"`
	AfterOp  string       `json:"last_mutation"`
	Diverged []divergence `json:"disagreements"`
	Note     string       `json:"note"`
}

func rbacMisses(e *env) int64 { return e.rm.GetCacheStats()["misses"] }

// runPressure executes one script. Every check issued, at any point, is compared
// with the cache-free evaluator of the state at that point.
func runPressure(c *vlib.Ctx, pc pCase, id string) []pendingViolation {
	e := newEnvSized(pc.Mode, pc.RBACMax, pc.AuthMax)
	defer e.close()
	h := newHistN(e, pc.Seed, pc.Tokens)
	var pend []pendingViolation
	var fresh *auth.RBACManager
	defer func() {
		if fresh != nil {
			fresh.Close()
		}
	}()
	asked := map[pKey]bool{}   // keys asked since the last mutation
	askedTok := map[int]bool{} // tokens asked since the last mutation
	last := map[pKey]bool{}    // last expected decision per key
	lastOp := "(setup)"
	for ai, a := range pc.Script {
		if a.Type == "op" {
			op := *a.Op
			h.exec(&op)
			lastOp = op.Kind
			if fresh != nil {
				fresh.Close()
				fresh = nil
			}
			asked, askedTok = map[pKey]bool{}, map[int]bool{}
			if a.Phase == "mutation" {
				c.Eval()
				c.Count("pressure_mutations", 1)
			}
			continue
		}
		if fresh == nil {
			fresh = e.freshRBAC()
		}
		var divs []divergence
		type item struct {
			k   pKey
			req *auth.PermissionCheckRequest
			row *auth.TokenInfo
		}
		var items []item
		for _, k := range a.Keys {
			t := &h.toks[k.Tok]
			if !t.created {
				continue
			}
			info := e.am.VerifyToken(t.value)
			row, err := e.am.GetTokenByID(t.id)
			if err != nil {
				panic(err)
			}
			valid := row != nil && row.Enabled
			if (info != nil) != valid {
				divs = append(divs, divergence{Path: "authenticate", Cell: cell{Tok: k.Tok, Value: "current"}, Warm: info != nil, Expected: valid})
			}
			if info == nil || !valid {
				continue
			}
			items = append(items, item{k, &auth.PermissionCheckRequest{TokenInfo: info, Database: k.DB, Measurement: k.Meas, Permission: k.Perm}, row})
		}
		got := make([]*auth.PermissionCheckResult, len(items))
		repeats := 0
		for _, it := range items {
			if asked[it.k] {
				repeats++
			}
		}
		m0 := rbacMisses(e)
		if a.Batch {
			reqs := make([]*auth.PermissionCheckRequest, len(items))
			for i, it := range items {
				reqs[i] = it.req
			}
			copy(got, e.rm.CheckPermissionsBatch(reqs))
			c.Count("pressure_checks_batch", int64(len(items)))
		} else {
			for i, it := range items {
				got[i] = e.rm.CheckPermission(it.req)
			}
			c.Count("pressure_checks_single", int64(len(items)))
		}
		missed := int(rbacMisses(e) - m0)
		// a key asked earlier in this window (no invalidation since) that misses
		// again can only have been evicted
		if firstTime := len(items) - repeats; missed > firstTime {
			c.Count("pressure_decision_cache_evictions_inferred", int64(missed-firstTime))
		}
		for i, it := range items {
			want := fresh.CheckPermission(&auth.PermissionCheckRequest{TokenInfo: it.row, Database: it.k.DB, Measurement: it.k.Meas, Permission: it.k.Perm}).Allowed
			cl := cell{Tok: it.k.Tok, Value: "current", DB: it.k.DB, Meas: it.k.Meas, Perm: it.k.Perm}
			path := "single"
			if a.Batch {
				path = "batch"
			}
			if got[i] == nil || got[i].Allowed != want {
				d := divergence{Path: path, Cell: cl, Expected: want, Note: "phase " + a.Phase}
				if got[i] != nil {
					d.Warm, d.Source = got[i].Allowed, got[i].Source
				}
				divs = append(divs, d)
			}
			if prev, ok := last[it.k]; ok && prev != want && a.Phase == "post" {
				c.Nontrivial(fmt.Sprintf("pressure|%s|%d", id, ai))
				c.Count("pressure_decision_changing_"+lastOp, 1)
			}
			last[it.k] = want
			if !asked[it.k] {
				asked[it.k] = true
				if len(asked) > pc.RBACMax {
					c.Count("pressure_checks_beyond_decision_cache_capacity", 1)
				}
			}
			if !askedTok[it.k.Tok] {
				askedTok[it.k.Tok] = true
				if len(askedTok) > pc.RBACMax {
					c.Count("pressure_tokens_beyond_token_cache_capacity", 1)
				}
			}
		}
		c.Count("decisions_compared", int64(len(items)))
		if len(divs) > 0 {
			bySig := map[string][]divergence{}
			for _, d := range divs {
				s := sigFor(pc.Mode, lastOp, d) + " (bounded cache capacity)"
				bySig[s] = append(bySig[s], d)
			}
			sigs := make([]string, 0, len(bySig))
			for s := range bySig {
				sigs = append(sigs, s)
			}
			sort.Strings(sigs)
			for _, s := range sigs {
				c.Count("disagreements", int64(len(bySig[s])))
				pend = append(pend, pendingViolation{s, pReplay{Case: pCase{Mode: pc.Mode, RBACMax: pc.RBACMax, AuthMax: pc.AuthMax, Tokens: pc.Tokens, Seed: pc.Seed, Script: pc.Script[:ai+1]},
					Action: ai, AfterOp: lastOp, Diverged: bySig[s],
					Note: "which entry a full cache evicts follows Go map iteration order, so one execution of the script may or may not reproduce; ./check C20 --replay <this file> repeats it up to 300 times"}})
			}
			e.rm.InvalidateAllCache()
			e.am.InvalidateCache()
			asked, askedTok = map[pKey]bool{}, map[int]bool{}
		}
	}
	c.Count("histories_pressure_"+pc.Mode, 1)
	if e.mode == modeCluster {
		c.Count("cluster_commands_applied", e.prop.n.Load())
		c.Count("cluster_apply_callback_errors", e.applyErrs.Load())
	}
	return pend
}
