package main

import (
	"crypto/sha256"
	"encoding/hex"
	"encoding/json"
	"fmt"
	"math/rand/v2"
	"runtime"
	"sort"
	"strings"
	"sync"
	"sync/atomic"
	"time"

	"github.com/basekick-labs/arc/internal/auth"
	araft "github.com/basekick-labs/arc/internal/cluster/raft"
	"github.com/basekick-labs/arc/internal/verifhook"
	"github.com/basekick-labs/arc/internal/zzverif/vlib"
)

const watchdog = 30 * time.Second

var verifyPoints = []string{"auth.verify.miss", "auth.verify.matched", "auth.verify.cached"}

// ---------------------------------------------------------------------------
// Token helpers
// ---------------------------------------------------------------------------

type tokenRef struct {
	id    int64
	name  string
	value string
}

func randValue(r *rand.Rand) string {
	const al = "abcdefghijklmnopqrstuvwxyzABCDEFGHIJKLMNOPQRSTUVWXYZ0123456789-_"
	b := make([]byte, 44)
	for i := range b {
		b[i] = al[r.IntN(len(al))]
	}
	return string(b)
}

// createToken issues a token through the exported API (PBKDF2 hash).
func createToken(e *env, name, perms string, exp *time.Time) tokenRef {
	v, err := e.am.CreateToken(bg, name, "verif", perms, exp)
	if err != nil {
		panic(fmt.Sprintf("CreateToken(%s): %v", name, err))
	}
	id := e.tokenIDByName(name)
	if id == 0 {
		panic("created token has no row: " + name)
	}
	return tokenRef{id: id, name: name, value: v}
}

// createLegacyToken plants a token whose stored hash is the pre-v26 bare
// SHA-256 form that verifyLegacyTokenHash still accepts (cheap to verify, so the
// stress can run thousands of cache-miss verifications). Direct mode: the row
// an older release would have left in api_tokens; cluster mode: a CreateToken
// command carrying that hash, applied through the FSM.
func createLegacyToken(e *env, name, value, perms string) tokenRef {
	return createLegacyTokenPrefixed(e, name, value, perms, "")
}

// createUnprefixedToken plants the row an upgraded deployment holds for a token issued
// before the token_prefix column existed: the start-up migration (backfillTokenPrefixes)
// tags such rows with token_prefix = '__legacy__', and VerifyToken finds them through
// the "OR token_prefix = '__legacy__'" arm of its candidate query.
func createUnprefixedToken(e *env, name, value, perms string) tokenRef {
	return createLegacyTokenPrefixed(e, name, value, perms, "__legacy__")
}

func createLegacyTokenPrefixed(e *env, name, value, perms, forcedPrefix string) tokenRef {
	h := sha256.Sum256([]byte(value))
	hash := hex.EncodeToString(h[:])
	prefix := hash[:16]
	if forcedPrefix != "" {
		prefix = forcedPrefix
	}
	if e.mode == modeCluster {
		payload, _ := json.Marshal(araft.CreateTokenPayload{Token: araft.TokenEntry{Name: name, Description: "legacy", Permissions: perms,
			TokenHash: hash, TokenPrefix: prefix, CreatedAtUnixNano: time.Now().UnixNano(), Enabled: true}})
		if err := e.prop.Propose(bg, auth.ProposalCommandCreateToken, payload, time.Second); err != nil {
			panic(fmt.Sprintf("legacy token propose: %v", err))
		}
	} else {
		if _, err := e.db().Exec(`INSERT INTO api_tokens (name, token_hash, token_prefix, description, permissions) VALUES (?, ?, ?, 'legacy', ?)`,
			name, hash, prefix, perms); err != nil {
			panic(fmt.Sprintf("legacy token insert: %v", err))
		}
	}
	id := e.tokenIDByName(name)
	if id == 0 {
		panic("legacy token has no row: " + name)
	}
	return tokenRef{id: id, name: name, value: value}
}

// mutate runs one of the three mutations through the exported API; in cluster
// mode that is propose -> FSM apply -> Apply{Revoke,Delete,Rotate}Token.
func mutate(e *env, mut string, id int64) (newValue string, err error) {
	switch mut {
	case "revoke":
		return "", e.am.RevokeToken(bg, id)
	case "delete":
		return "", e.am.DeleteToken(bg, id)
	case "rotate":
		return e.am.RotateToken(bg, id)
	}
	panic("unknown mutation " + mut)
}

// waitLastUsed waits until the asynchronous last_used_at write of an earlier
// verification has been applied, so that it cannot be mistaken for the mutation
// when the harness watches the connection pool.
func waitLastUsed(e *env, id int64) {
	waitUntil(2*time.Second, func() bool {
		t, err := e.am.GetTokenByID(id)
		return err != nil || t == nil || t.LastUsedAt != nil
	})
}

// ---------------------------------------------------------------------------
// (a) forced schedules
// ---------------------------------------------------------------------------

type schedule struct {
	Mode string `json:"mode"`
	Mut  string `json:"mutation"`
	Name string `json:"schedule"` // hit | miss/cold | miss/warm | matched/cold | matched/others | cached/cold | cached/others
}

type schedResult struct {
	Schedule         schedule `json:"schedule"`
	ParkedAt         string   `json:"verifier_parked_at,omitempty"`
	MutationWhile    string   `json:"mutation_progress_while_verifier_parked"` // completed | blocked-on-db-connection | n/a
	MutationErr      string   `json:"mutation_error,omitempty"`
	ParkedVerifyOK   *bool    `json:"parked_verification_succeeded_unconstrained,omitempty"`
	ProbesOK         []bool   `json:"new_verifications_of_old_value_succeeded"`
	CacheHitsDuring  int64    `json:"cache_hits_during_probes"`
	NewValueVerifies *bool    `json:"rotated_new_value_verifies,omitempty"`
	HowToReplay      string   `json:"how_to_replay"`
}

func allSchedules() []schedule {
	var out []schedule
	for _, mode := range []string{modeDirect, modeCluster} {
		for _, mut := range []string{"revoke", "delete", "rotate"} {
			for _, n := range []string{"hit", "hit-unprefixed", "miss/cold", "miss/warm", "matched/cold", "matched/others", "cached/cold", "cached/others"} {
				out = append(out, schedule{mode, mut, n})
			}
		}
	}
	return out
}

func cacheHits(e *env) int64 {
	v, _ := e.am.GetCacheStats()["cache_hits"].(int64)
	return v
}

// runSchedule forces one interleaving. Only verifications that START after the
// mutation returned are constrained.
func runSchedule(c *vlib.Ctx, s schedule) {
	e := newEnv(s.Mode)
	defer e.close()
	target := tokenRef{}
	if s.Name == "hit-unprefixed" {
		// a token from before the token_prefix column (row tagged '__legacy__' by the migration)
		target = createUnprefixedToken(e, "target", "tok_unprefixed_0123456789abcdef0123456789abcdef", "read,write")
	} else {
		target = createToken(e, "target", "read,write", nil)
	}
	res := schedResult{Schedule: s, MutationWhile: "n/a", HowToReplay: "./check C21 --replay <this file>"}
	point := ""
	variant := ""
	if at, v, ok := strings.Cut(s.Name, "/"); ok {
		point, variant = "auth.verify."+at, v
	}
	if variant == "others" {
		for i := 0; i < 2; i++ {
			o := createToken(e, fmt.Sprintf("other%d", i), "read", nil)
			if e.am.VerifyToken(o.value) == nil {
				panic("other token does not verify")
			}
			waitLastUsed(e, o.id)
		}
	}

	var mutErr error
	var newValue string
	if s.Name == "hit" || s.Name == "hit-unprefixed" {
		if e.am.VerifyToken(target.value) == nil {
			panic("fresh token does not verify")
		}
		h0 := cacheHits(e)
		if e.am.VerifyToken(target.value) == nil || cacheHits(e) != h0+1 {
			panic("second verification was not a cache hit")
		}
		waitLastUsed(e, target.id)
		newValue, mutErr = mutate(e, s.Mut, target.id)
	} else {
		res.ParkedAt = point
		parked := make(chan struct{}, 1)
		release := make(chan struct{})
		verifhook.Set(point, verifhook.Rule{Action: "call", Nth: 1, Fn: func(string) error {
			parked <- struct{}{}
			<-release
			return nil
		}})
		defer verifhook.Clear(point)
		wait0 := e.db().Stats().WaitCount
		v1 := make(chan bool, 1)
		go func() { v1 <- e.am.VerifyToken(target.value) != nil }()
		select {
		case <-parked:
		case <-time.After(watchdog):
			close(release)
			c.Inconclusive(fmt.Sprintf("schedule %v: verifier never reached %s", s, point))
			return
		}
		if variant == "warm" {
			// a second verification completes while the first one is parked
			// before its database read: the cache now holds the old value
			if e.am.VerifyToken(target.value) == nil {
				panic("warming verification failed")
			}
			waitLastUsed(e, target.id)
		}
		if point == "auth.verify.cached" {
			// the parked verifier has queued its last_used_at write; let that
			// writer reach the (single) connection before sampling the pool
			waitUntil(50*time.Millisecond, func() bool { return e.db().Stats().WaitCount > wait0 })
		}
		base := e.db().Stats().WaitCount
		type mres struct {
			v   string
			err error
		}
		md := make(chan mres, 1)
		go func() {
			v, err := mutate(e, s.Mut, target.id)
			md <- mres{v, err}
		}()
		var got *mres
		ok := waitUntil(watchdog, func() bool {
			select {
			case r := <-md:
				got = &r
				return true
			default:
			}
			return e.db().Stats().WaitCount > base
		})
		if !ok {
			close(release)
			c.Inconclusive(fmt.Sprintf("schedule %v: mutation neither finished nor blocked", s))
			return
		}
		if got != nil {
			res.MutationWhile = "completed"
			c.Count("schedules_mutation_completed_while_verifier_parked", 1)
		} else {
			// The verifier holds the only database connection (its rows are
			// still open), so in arc this interleaving cannot happen: the
			// mutation proceeds only once the verifier has returned.
			res.MutationWhile = "blocked-on-db-connection"
			c.Count("schedules_mutation_blocked_until_verifier_returned", 1)
		}
		close(release)
		select {
		case okv := <-v1:
			res.ParkedVerifyOK = &okv
		case <-time.After(watchdog):
			c.Inconclusive(fmt.Sprintf("schedule %v: parked verifier did not return", s))
			return
		}
		if got == nil {
			select {
			case r := <-md:
				got = &r
			case <-time.After(watchdog):
				c.Inconclusive(fmt.Sprintf("schedule %v: mutation did not return", s))
				return
			}
		}
		newValue, mutErr = got.v, got.err
		verifhook.Clear(point)
	}
	if mutErr != nil {
		res.MutationErr = mutErr.Error()
		c.Inconclusive(fmt.Sprintf("schedule %v: mutation failed: %v", s, mutErr))
		return
	}

	// the mutation has returned: NEW verifications of the old value
	h0 := cacheHits(e)
	p1 := e.am.VerifyToken(target.value) != nil
	p2 := e.am.VerifyToken(target.value) != nil
	res.ProbesOK = []bool{p1, p2}
	res.CacheHitsDuring = cacheHits(e) - h0
	if s.Mut == "rotate" {
		nv := e.am.VerifyToken(newValue) != nil
		res.NewValueVerifies = &nv
		if nv {
			c.Count("rotated_new_value_verifies", 1)
		} else {
			c.Count("rotated_new_value_rejected", 1)
		}
	}
	c.Eval()
	if ((s.Mode == modeDirect && s.Mut == "revoke") || (s.Mode == modeCluster && s.Mut == "rotate")) &&
		(s.Name == "hit" || s.Name == "miss/warm" || s.Name == "matched/cold") {
		c.Sample(res)
	}
	c.Nontrivial("sched|" + vlib.JSON(s))
	c.Count("forced_schedules", 1)
	c.Count("post_mutation_probes", 2)
	if p1 || p2 {
		sig := fmt.Sprintf("old token value authenticates after %s returned (%s, sequential or connection-serialised)", s.Mut, s.Mode)
		if res.MutationWhile == "completed" {
			sig = fmt.Sprintf("verification parked at %s re-caches the old token value after the mutation returned", point)
		}
		c.Violation(sig, res)
	}
}

// ---------------------------------------------------------------------------
// (b) stress
// ---------------------------------------------------------------------------

type vEvent struct {
	G    int   `json:"goroutine"`
	Call int64 `json:"call"`
	Ret  int64 `json:"ret"`
	OK   bool  `json:"ok"`
}

type stressReplay struct {
	Mode        string   `json:"mode"`
	Mut         string   `json:"mutation"`
	Hash        string   `json:"token_hash_kind"`
	MutCall     int64    `json:"mutation_call"`
	MutRet      int64    `json:"mutation_return"`
	Offenders   []vEvent `json:"verifications_started_after_return_that_succeeded"`
	Verifiers   int      `json:"verifier_goroutines"`
	TotalEvents int      `json:"verifications"`
	Note        string   `json:"note"`
}

type perturb struct {
	mu sync.Mutex
	r  *rand.Rand
}

func (p *perturb) fn(string) error {
	p.mu.Lock()
	k := p.r.IntN(10)
	d := p.r.IntN(300)
	p.mu.Unlock()
	switch {
	case k < 4:
	case k < 7:
		runtime.Gosched()
	default:
		time.Sleep(time.Duration(d) * time.Microsecond)
	}
	return nil
}

func runStress(c *vlib.Ctx, idx int, mode, mut, hashKind string, r *rand.Rand) {
	e := newEnv(mode)
	defer e.close()
	var target, noise tokenRef
	if hashKind == "legacy-sha256" {
		target = createLegacyToken(e, "target", randValue(r), "read,write")
		noise = createLegacyToken(e, "noise", randValue(r), "read")
	} else {
		target = createToken(e, "target", "read,write", nil)
		noise = createToken(e, "noise", "read", nil)
	}
	nVer := 4 + r.IntN(5)
	preTarget := int64(3 + r.IntN(30)) // verifications completed before the mutation starts
	postEach := 6 + r.IntN(10)         // verifications per goroutine after the mutation returned
	noiseEvery := int64(2 + r.IntN(6)) // a cache-invalidating unrelated update every so many verifications
	if hashKind != "legacy-sha256" {
		nVer, preTarget, postEach, noiseEvery = 4, int64(3+r.IntN(6)), 4, 4
	}

	var clock, completed atomic.Int64
	var mutReturned atomic.Bool
	var mutCall, mutRet int64
	events := make([][]vEvent, nVer)
	var wg sync.WaitGroup
	for g := 0; g < nVer; g++ {
		wg.Add(1)
		pace := rand.New(rand.NewPCG(r.Uint64(), uint64(g)))
		go func(g int) {
			defer wg.Done()
			after := 0
			for after < postEach {
				// pace the loop: cache hits take ~100ns and would otherwise
				// produce millions of uninteresting events while a rotate hashes
				if k := pace.IntN(8); k == 0 {
					time.Sleep(time.Duration(20+pace.IntN(200)) * time.Microsecond)
				} else {
					time.Sleep(time.Duration(1+pace.IntN(20)) * time.Microsecond)
				}
				wasReturned := mutReturned.Load()
				ev := vEvent{G: g, Call: clock.Add(1)}
				ev.OK = e.am.VerifyToken(target.value) != nil
				ev.Ret = clock.Add(1)
				events[g] = append(events[g], ev)
				completed.Add(1)
				if wasReturned {
					after++
				}
				if len(events[g]) > 50000 {
					return
				}
			}
		}(g)
	}
	// noise: an unrelated token update invalidates the whole cache, so that
	// verifications keep taking the miss path while the mutation is pending
	stopNoise := make(chan struct{})
	var nwg sync.WaitGroup
	nwg.Add(1)
	go func() {
		defer nwg.Done()
		last := int64(0)
		n := 0
		for {
			select {
			case <-stopNoise:
				return
			default:
			}
			if cur := completed.Load(); cur-last >= noiseEvery {
				last = cur
				n++
				d := fmt.Sprintf("noise %d", n)
				_ = e.am.UpdateToken(bg, noise.id, nil, &d, nil, nil)
				c.Count("stress_noise_invalidations", 1)
			} else {
				runtime.Gosched()
			}
		}
	}()
	okStart := waitUntil(watchdog, func() bool { return completed.Load() >= preTarget })
	mutCall = clock.Add(1)
	_, mutErr := mutate(e, mut, target.id)
	mutRet = clock.Add(1)
	mutReturned.Store(true)
	close(stopNoise)
	nwg.Wait()
	wgDone := make(chan struct{})
	go func() { wg.Wait(); close(wgDone) }()
	select {
	case <-wgDone:
	case <-time.After(watchdog):
		c.Inconclusive(fmt.Sprintf("stress %d: verifiers did not finish", idx))
		return
	}
	if !okStart || mutErr != nil {
		c.Inconclusive(fmt.Sprintf("stress %d: start=%v mutation error=%v", idx, okStart, mutErr))
		return
	}

	var all []vEvent
	for _, evs := range events {
		all = append(all, evs...)
	}
	sort.Slice(all, func(i, j int) bool { return all[i].Call < all[j].Call })
	var pre, overlap, post, preOK int
	var offenders []vEvent
	for _, ev := range all {
		switch {
		case ev.Ret < mutCall:
			pre++
			if ev.OK {
				preOK++
			}
		case ev.Call > mutRet:
			post++
			if ev.OK {
				offenders = append(offenders, ev)
			}
		default:
			overlap++
		}
	}
	c.Eval()
	c.Count("stress_histories", 1)
	c.Count("stress_verifications", int64(len(all)))
	c.Count("stress_verifications_overlapping_mutation", int64(overlap))
	c.Count("stress_verifications_started_after_return", int64(post))
	c.Count("stress_pre_mutation_successes", int64(preOK))
	if idx < 2 {
		c.Sample(map[string]any{"stress_history": idx, "mode": mode, "mutation": mut, "hash": hashKind, "verifiers": nVer,
			"verifications": len(all), "before": pre, "before_ok": preOK, "overlapping": overlap, "started_after_return": post, "after_ok": len(offenders)})
	}
	if preOK > 0 && post > 0 && overlap > 0 {
		c.Nontrivial(fmt.Sprintf("stress|%d|%s|%s|%s", idx, mode, mut, hashKind))
	}
	if len(offenders) > 0 {
		if len(offenders) > 10 {
			offenders = offenders[:10]
		}
		c.Violation("stress: a verification that started after the mutation returned authenticated the old token value",
			stressReplay{Mode: mode, Mut: mut, Hash: hashKind, MutCall: mutCall, MutRet: mutRet, Offenders: offenders,
				Verifiers: nVer, TotalEvents: len(all), Note: "call/ret are values of one atomic counter taken immediately before the call and after the return; interleavings are not replayable, rerun ./check C21"})
	}
}

// ---------------------------------------------------------------------------
// (c) values that must never authenticate
// ---------------------------------------------------------------------------

type negReplay struct {
	Mode string `json:"mode"`
	Case string `json:"case"`
	Note string `json:"note,omitempty"`
}

func runNegatives(c *vlib.Ctx, mode string, r *rand.Rand) {
	e := newEnv(mode)
	defer e.close()
	expect := func(name string, value string, warm bool) {
		c.Eval()
		c.Count("negative_cases", 1)
		c.Nontrivial("neg|" + mode + "|" + name)
		got := e.am.VerifyToken(value) != nil
		got2 := e.am.VerifyToken(value) != nil
		if got || got2 {
			c.Violation(fmt.Sprintf("value that must not authenticate is accepted: %s", name), negReplay{Mode: mode, Case: name})
		}
		_ = warm
	}
	// positive control (not required by the only-if statement, but a harness in
	// which nothing authenticates would make every negative case vacuous)
	live := createToken(e, "live", "read", nil)
	if e.am.VerifyToken(live.value) == nil || e.am.VerifyToken(live.value) == nil {
		panic("a live token without expiry does not authenticate: harness broken")
	}
	c.Count("positive_controls", 1)
	future := createToken(e, "expires-in-6h", "read", ptrTime(time.Now().Add(6*time.Hour)))
	if e.am.VerifyToken(future.value) != nil {
		c.Count("positive_controls", 1)
	} else {
		c.Count("unexpired_token_rejected_not_a_violation", 1)
	}
	for i := 0; i < 6; i++ {
		expect("never issued (random)", randValue(r), false)
	}
	expect("never issued (empty)", "", false)
	b := []byte(live.value)
	b[len(b)-2] ^= 1
	expect("never issued (one character of a live value changed)", string(b), false)
	expect("never issued (live value with suffix)", live.value+"x", false)
	expect("never issued (prefix of live value)", live.value[:len(live.value)-1], false)

	exp := createToken(e, "expired-at-issue", "read,write", ptrTime(time.Now().Add(-6*time.Hour)))
	expect("expired (issued with a past expiry)", exp.value, false)

	late := createToken(e, "expires-later", "read", nil)
	if e.am.VerifyToken(late.value) == nil {
		panic("token does not verify before expiry update")
	}
	past := time.Now().Add(-6 * time.Hour)
	if err := e.am.UpdateToken(bg, late.id, nil, nil, nil, &past); err != nil {
		panic(err)
	}
	expect("expired (expiry moved into the past while cached)", late.value, true)

	dis := createToken(e, "disabled", "admin", nil)
	if e.am.VerifyToken(dis.value) == nil {
		panic("token does not verify before revoke")
	}
	if err := e.am.RevokeToken(bg, dis.id); err != nil {
		panic(err)
	}
	expect("disabled (revoked while cached)", dis.value, true)
	del := createToken(e, "deleted", "admin", nil)
	if err := e.am.DeleteToken(bg, del.id); err != nil {
		panic(err)
	}
	expect("deleted (never verified before)", del.value, false)
	rot := createToken(e, "rotated", "read", nil)
	if _, err := e.am.RotateToken(bg, rot.id); err != nil {
		panic(err)
	}
	expect("rotated away (never verified before)", rot.value, false)
	// a new token under the name of a deleted one must not revive the old value
	again := createToken(e, "deleted", "read", nil)
	expect("deleted, name reused by a new token", del.value, false)
	if e.am.VerifyToken(again.value) != nil {
		c.Count("positive_controls", 1)
	}
}

func ptrTime(t time.Time) *time.Time { return &t }

// ---------------------------------------------------------------------------
// Entry point
// ---------------------------------------------------------------------------

func checkC21(c *vlib.Ctx) {
	c.Rule("(a) every forced schedule {revoke,delete,rotate} x {direct,cluster-apply} x {cache hit; verifier parked at auth.verify.miss (cold / cache re-warmed meanwhile), .matched and .cached (cache empty / other tokens cached)}: the mutation is run to completion (or until it demonstrably waits for the connection the verifier holds), the verifier released, then two NEW verifications of the old value are issued; (b) stress histories: 4-8 verifier goroutines + an unrelated cache-invalidating updater + one mutator, random yield/sleep at the three points, call/return stamped by one atomic counter; (c) never-issued, expired, disabled, deleted, rotated-away values; a case is non-trivial when the old value authenticated before the mutation and verifications both overlapped and followed it")
	c.Assume("only verifications whose call stamp is after the mutation's return stamp are constrained; the parked/overlapping ones are not")
	c.Assume("cluster mode: real ClusterFSM + Apply* callbacks, synchronous single-node proposer instead of hashicorp/raft; one node only (follower lag is outside the statement)")
	c.Assume("stress uses PBKDF2 tokens for a quarter of the histories and pre-v26 SHA-256 ('legacy') token rows for the rest so that thousands of miss-path verifications fit in the budget; expiries are 6h from now; cache TTL 6h")

	if c.Replay != "" {
		var r schedResult
		if err := vlib.LoadReplay(c.Replay, &r); err == nil && r.Schedule.Mode != "" {
			runSchedule(c, r.Schedule)
			c.Floor(0)
			return
		}
		fmt.Println("replay file carries no forced schedule (stress/negative finding): running the full check")
	}

	// (a) forced schedules - the hook registry is process-global: sequential
	for _, s := range allSchedules() {
		runSchedule(c, s)
	}
	// (c) negatives
	for _, mode := range []string{modeDirect, modeCluster} {
		runNegatives(c, mode, c.Rand("neg-"+mode))
	}
	// (b) stress
	p := &perturb{r: c.Rand("perturb")}
	for _, pt := range verifyPoints {
		verifhook.Set(pt, verifhook.Rule{Action: "call", Fn: p.fn})
	}
	defer verifhook.ClearAll()
	n := c.N(240, 12000)
	type job struct {
		idx             int
		mode, mut, hash string
		seed            uint64
	}
	rng := c.Rand("stress")
	ch := make(chan job)
	var wg sync.WaitGroup
	for w := 0; w < 16; w++ {
		wg.Add(1)
		go func() {
			defer wg.Done()
			for j := range ch {
				runStress(c, j.idx, j.mode, j.mut, j.hash, rand.New(rand.NewPCG(j.seed, uint64(j.idx))))
			}
		}()
	}
	muts := []string{"revoke", "delete", "rotate"}
	for i := 0; i < n; i++ {
		hash := "legacy-sha256"
		if i%4 == 0 {
			hash = "pbkdf2"
		}
		ch <- job{i, []string{modeDirect, modeCluster}[i%2], muts[(i/2)%3], hash, rng.Uint64()}
	}
	close(ch)
	wg.Wait()
	for _, pt := range verifyPoints {
		c.Count("hook_hits_"+pt, verifhook.Hits(pt))
	}
	c.Floor(len(allSchedules()) + c.N(150, 7000))
}
