// Package vlib is the shared runtime-monitoring support library for the /verif
// harnesses: seeded PRNG, tiering, evidence accounting, violation reporting with
// known-finding matching and replay files. It is injected into the arc module as
// github.com/basekick-labs/arc/internal/zzverif/vlib through a build overlay.
package vlib

import (
	"bufio"
	"crypto/sha256"
	"encoding/hex"
	"encoding/json"
	"fmt"
	"math/rand/v2"
	"os"
	"path/filepath"
	"sort"
	"strconv"
	"strings"
	"sync"
	"time"
)

// Ctx is handed to a check body. All methods are safe for concurrent use.
type Ctx struct {
	ID    string
	Level string
	Tier  string // "quick" | "thorough"
	Seed  int64
	// Replay is the path given with --replay (empty otherwise).
	Replay string

	mu       sync.Mutex
	evals    int64
	distinct map[[16]byte]struct{}
	samples  []any
	// keys of the first non-trivial cases: used as samples when a check body
	// recorded none explicitly (evidence must always show actual cases)
	fallbackSamples []any
	maxSamples      int
	counters        map[string]int64
	rule            string
	assumptions     []string
	extra           map[string]any
	viol            []violation
	known           []knownFinding
	knownHit        map[string]int
	inconcl         []string
	minNontriv      int
	start           time.Time
	root            string
}

type violation struct {
	Sig    string `json:"signature"`
	Detail any    `json:"detail"`
	Path   string `json:"replay"`
}

type knownFinding struct {
	Property  string `json:"property"`
	Status    string `json:"status"` // "known" | "fixed"
	Signature string `json:"signature"`
	What      string `json:"what"`
	Commit    string `json:"commit,omitempty"`
}

// Root returns the /verif directory.
func Root() string {
	if r := os.Getenv("VERIF_ROOT"); r != "" {
		return r
	}
	return "/verif"
}

// Quick reports whether this is the quick tier.
func (c *Ctx) Quick() bool { return c.Tier != "thorough" }

// N picks a case count by tier.
func (c *Ctx) N(quick, thorough int) int {
	if c.Quick() {
		return quick
	}
	return thorough
}

// Rand returns a new deterministic PRNG for the named stream (seed ⊕ name), so
// that adding a stream does not perturb the others.
func (c *Ctx) Rand(stream string) *rand.Rand {
	h := sha256.Sum256([]byte(fmt.Sprintf("%s/%d/%s", c.ID, c.Seed, stream)))
	var a, b uint64
	for i := 0; i < 8; i++ {
		a = a<<8 | uint64(h[i])
		b = b<<8 | uint64(h[8+i])
	}
	return rand.New(rand.NewPCG(a, b))
}

// Eval counts one evaluated case.
func (c *Ctx) Eval() { c.EvalN(1) }

// EvalN counts n evaluated cases.
func (c *Ctx) EvalN(n int) {
	c.mu.Lock()
	c.evals += int64(n)
	c.mu.Unlock()
}

// Nontrivial records a case as non-trivial; key identifies it for distinctness.
func (c *Ctx) Nontrivial(key string) {
	h := sha256.Sum256([]byte(key))
	var k [16]byte
	copy(k[:], h[:16])
	c.mu.Lock()
	c.distinct[k] = struct{}{}
	if len(c.fallbackSamples) < 4 && len(key) > 0 {
		ks := key
		if len(ks) > 600 {
			ks = ks[:600]
		}
		c.fallbackSamples = append(c.fallbackSamples, map[string]any{"case": ks})
	}
	c.mu.Unlock()
}

// Sample keeps v as one of the evidence samples (first maxSamples kept, then
// reservoir-free: later ones are ignored).
func (c *Ctx) Sample(v any) {
	c.mu.Lock()
	if len(c.samples) < c.maxSamples {
		c.samples = append(c.samples, v)
	}
	c.mu.Unlock()
}

// Count adds n to a named monitor counter reported in evidence.
func (c *Ctx) Count(name string, n int64) {
	c.mu.Lock()
	c.counters[name] += n
	c.mu.Unlock()
}

// Counter reads a counter.
func (c *Ctx) Counter(name string) int64 {
	c.mu.Lock()
	defer c.mu.Unlock()
	return c.counters[name]
}

// Rule sets the evidence rule text.
func (c *Ctx) Rule(s string) { c.rule = s }

// Assume records an assumption / trusted-base statement.
func (c *Ctx) Assume(s string) {
	c.mu.Lock()
	c.assumptions = append(c.assumptions, s)
	c.mu.Unlock()
}

// Extra sets an extra coverage key.
func (c *Ctx) Extra(k string, v any) {
	c.mu.Lock()
	c.extra[k] = v
	c.mu.Unlock()
}

// Floor sets the minimum number of distinct non-trivial cases below which the run
// counts as broken (it observed too little to be evidence).
func (c *Ctx) Floor(n int) { c.minNontriv = n }

// Inconclusive records an inconclusive sub-run (watchdog, checker timeout...).
func (c *Ctx) Inconclusive(why string) {
	c.mu.Lock()
	c.inconcl = append(c.inconcl, why)
	c.mu.Unlock()
}

// Violations returns the number of non-known violations so far.
func (c *Ctx) Violations() int {
	c.mu.Lock()
	defer c.mu.Unlock()
	return len(c.viol)
}

// Violation reports a refuting observation. sig is a stable signature of the
// minimal failing input / call site / history (used to match known findings);
// detail is written to the replay file. Returns true if it was a new (not known)
// violation.
func (c *Ctx) Violation(sig string, detail any) bool {
	c.mu.Lock()
	defer c.mu.Unlock()
	for _, k := range c.known {
		if k.Status == "known" && k.Signature == sig {
			c.knownHit[sig]++
			return false
		}
	}
	for _, v := range c.viol {
		if v.Sig == sig {
			return true // same signature already reported; keep first replay
		}
	}
	if len(c.viol) >= 50 {
		return true
	}
	dir := filepath.Join(c.root, "replays", c.ID)
	_ = os.MkdirAll(dir, 0o755)
	h := sha256.Sum256([]byte(sig))
	p := filepath.Join(dir, fmt.Sprintf("%s-seed%d.json", hex.EncodeToString(h[:6]), c.Seed))
	b, _ := json.MarshalIndent(map[string]any{
		"property": c.ID, "signature": sig, "seed": c.Seed, "tier": c.Tier, "detail": detail,
	}, "", " ")
	_ = os.WriteFile(p, b, 0o644)
	c.viol = append(c.viol, violation{Sig: sig, Detail: detail, Path: p})
	return true
}

func loadKnown(root, id string) []knownFinding {
	f, err := os.Open(filepath.Join(root, "known_findings.jsonl"))
	if err != nil {
		return nil
	}
	defer f.Close()
	var out []knownFinding
	sc := bufio.NewScanner(f)
	sc.Buffer(make([]byte, 1<<20), 1<<24)
	for sc.Scan() {
		line := strings.TrimSpace(sc.Text())
		if line == "" || strings.HasPrefix(line, "#") {
			continue
		}
		var k knownFinding
		if json.Unmarshal([]byte(line), &k) == nil && k.Property == id {
			out = append(out, k)
		}
	}
	return out
}

// Main runs a check body and terminates the process with the contract's exit code.
func Main(id, level string, body func(c *Ctx)) {
	c := &Ctx{
		ID: id, Level: level, Tier: "quick", Seed: 1,
		distinct: map[[16]byte]struct{}{}, counters: map[string]int64{},
		extra: map[string]any{}, knownHit: map[string]int{}, maxSamples: 8,
		minNontriv: 2, start: time.Now(), root: Root(),
	}
	if t := os.Getenv("VERIF_TIER"); t == "thorough" {
		c.Tier = "thorough"
	}
	if s := os.Getenv("VERIF_SEED"); s != "" {
		if v, err := strconv.ParseInt(s, 10, 64); err == nil {
			c.Seed = v
		}
	}
	for i, a := range os.Args {
		if a == "--replay" && i+1 < len(os.Args) {
			c.Replay = os.Args[i+1]
		}
	}
	c.known = loadKnown(c.root, id)

	func() {
		defer func() {
			if r := recover(); r != nil {
				// A panic in harness or arc code reached from it: report as broken
				// run (not a verdict) unless the body converts panics itself.
				fmt.Printf("HARNESS-PANIC property=%s %v\n", id, r)
				c.finish(2)
				panic(r)
			}
		}()
		body(c)
	}()
	c.finish(0)
}

func (c *Ctx) finish(forced int) {
	c.mu.Lock()
	defer c.mu.Unlock()
	wall := time.Since(c.start).Seconds()
	cov := map[string]any{
		"evaluations":         c.evals,
		"distinct_nontrivial": len(c.distinct),
		"rule":                c.rule,
		"samples":             c.samples,
		"monitor_counters":    c.counters,
	}
	if len(c.samples) == 0 {
		cov["samples"] = c.fallbackSamples
		if len(c.fallbackSamples) == 0 {
			cov["samples"] = []any{}
		}
	}
	for k, v := range c.extra {
		cov[k] = v
	}
	if len(c.inconcl) > 0 {
		cov["inconclusive"] = c.inconcl
	}
	kh := []string{}
	for s := range c.knownHit {
		kh = append(kh, s)
	}
	sort.Strings(kh)
	if len(kh) > 0 {
		m := map[string]int{}
		for _, s := range kh {
			m[s] = c.knownHit[s]
		}
		cov["known_findings_observed"] = m
	}
	ev := map[string]any{
		"property_id": c.ID, "tier": c.Tier, "seed": c.Seed, "level": c.Level,
		"coverage": cov, "assumptions": c.assumptions, "wall_s": wall,
		"violations": len(c.viol),
	}
	if c.assumptions == nil {
		ev["assumptions"] = []string{}
	}
	b, _ := json.MarshalIndent(ev, "", " ")
	evp := os.Getenv("VERIF_EVIDENCE")
	if evp == "" {
		evp = filepath.Join(c.root, "evidence", c.ID+".json")
	}
	_ = os.MkdirAll(filepath.Dir(evp), 0o755)
	_ = os.WriteFile(evp, b, 0o644)

	for _, s := range kh {
		what := s
		for _, k := range c.known {
			if k.Signature == s && k.What != "" {
				what = k.What + " [" + s + "]"
			}
		}
		fmt.Printf("KNOWN-FINDING: property=%s %s (observed %d times)\n", c.ID, what, c.knownHit[s])
	}
	for _, v := range c.viol {
		fmt.Printf("VIOLATION property=%s replay=%s\n", c.ID, v.Path)
		fmt.Printf("  signature: %s\n", v.Sig)
	}
	keys := make([]string, 0, len(c.counters))
	for k := range c.counters {
		keys = append(keys, k)
	}
	sort.Strings(keys)
	fmt.Printf("SUMMARY property=%s tier=%s seed=%d evaluations=%d distinct_nontrivial=%d violations=%d known=%d inconclusive=%d wall=%.1fs\n",
		c.ID, c.Tier, c.Seed, c.evals, len(c.distinct), len(c.viol), len(kh), len(c.inconcl), wall)
	for _, k := range keys {
		fmt.Printf("  %s=%d\n", k, c.counters[k])
	}
	code := forced
	if len(c.viol) > 0 {
		code = 1
	} else if code == 0 && len(c.distinct) < c.minNontriv {
		fmt.Printf("BROKEN-RUN property=%s observed only %d distinct non-trivial cases (floor %d): not evidence\n", c.ID, len(c.distinct), c.minNontriv)
		code = 3
	}
	if forced == 2 {
		return // panic path: caller re-panics
	}
	os.Exit(code)
}

// JSON renders v compactly for signatures/samples.
func JSON(v any) string {
	b, _ := json.Marshal(v)
	return string(b)
}

// TempDir creates a scratch directory under VERIF_TMP (default $TMPDIR) that the
// caller removes.
func TempDir(prefix string) string {
	base := os.Getenv("VERIF_TMP")
	if base == "" {
		base = os.TempDir()
	}
	d, err := os.MkdirTemp(base, "verif-"+prefix+"-")
	if err != nil {
		panic(err)
	}
	return d
}

// DiskTempDir creates a scratch directory on disk under $VERIF_BUILD/tmp (the real arc
// binary refuses storage paths under /dev, so tmpfs scratch cannot hold its data).
func DiskTempDir(prefix string) string {
	base := os.Getenv("VERIF_BUILD")
	if base == "" {
		base = filepath.Join(Root(), "build")
	}
	base = filepath.Join(base, "tmp")
	for _, denied := range []string{"/etc/", "/usr/", "/bin/", "/sbin/", "/boot/", "/proc/", "/sys/", "/dev/", "/root/"} {
		if strings.HasPrefix(base, denied) {
			// arc refuses data directories under system roots (e.g. a snapshot of /verif
			// under /root/.vp/runs): use the system temp directory for this run's scratch
			base = filepath.Join(os.TempDir(), "verif-disk-tmp")
			break
		}
	}
	_ = os.MkdirAll(base, 0o755)
	d, err := os.MkdirTemp(base, "verif-"+prefix+"-")
	if err != nil {
		panic(err)
	}
	return d
}

// LoadReplay reads a replay file's detail into v.
func LoadReplay(path string, v any) error {
	b, err := os.ReadFile(path)
	if err != nil {
		return err
	}
	var w struct {
		Detail json.RawMessage `json:"detail"`
	}
	if err := json.Unmarshal(b, &w); err != nil {
		return err
	}
	return json.Unmarshal(w.Detail, v)
}
