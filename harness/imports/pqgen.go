package main

// Parquet generator with ground truth: files are written with arrow-go's pqarrow
// writer from typed values the generator keeps.

import (
	"bytes"
	"context"
	"fmt"
	"math"
	"math/big"
	"math/rand/v2"
	"os"
	"time"

	"github.com/apache/arrow-go/v18/arrow"
	"github.com/apache/arrow-go/v18/arrow/array"
	"github.com/apache/arrow-go/v18/arrow/decimal128"
	"github.com/apache/arrow-go/v18/arrow/float16"
	"github.com/apache/arrow-go/v18/arrow/memory"
	"github.com/apache/arrow-go/v18/parquet"
	"github.com/apache/arrow-go/v18/parquet/file"
	"github.com/apache/arrow-go/v18/parquet/pqarrow"
)

// pqCol describes one generated Parquet column.
type pqCol struct {
	name    string
	dt      arrow.DataType
	kind    string // classification used in signatures
	outType string // int64 | float64 | bool | string ; "" = unsupported by the importer
	// append writes row r's value (or null) into the builder and returns the truth
	append func(b array.Builder, rng *rand.Rand, null bool) (tv, string)
}

func i64(v int64) tv      { return tv{K: "int", I: v} }
func f64(v float64) tv    { return tv{K: "float", F: math.Float64bits(v)} }
func str(b []byte) tv     { return tv{K: "str", S: b} }
func boolean(v bool) tv   { return tv{K: "bool", B: v} }
func unrepresentable() tv { return tv{K: "unrepresentable"} }

var nullTV = tv{K: "null"}

func randBytes(rng *rand.Rand, n int) []byte {
	b := make([]byte, n)
	for i := range b {
		b[i] = byte(rng.IntN(256))
	}
	return b
}

func pqSupportedColumn(rng *rand.Rand, name string) pqCol {
	switch rng.IntN(22) {
	case 0:
		return pqCol{name, arrow.PrimitiveTypes.Int8, "int8", "int64", func(b array.Builder, rng *rand.Rand, null bool) (tv, string) {
			if null {
				b.AppendNull()
				return nullTV, "null"
			}
			v := int8(rng.IntN(256) - 128)
			b.(*array.Int8Builder).Append(v)
			return i64(int64(v)), "int8"
		}}
	case 1:
		return pqCol{name, arrow.PrimitiveTypes.Int16, "int16", "int64", func(b array.Builder, rng *rand.Rand, null bool) (tv, string) {
			if null {
				b.AppendNull()
				return nullTV, "null"
			}
			v := int16(rng.IntN(65536) - 32768)
			b.(*array.Int16Builder).Append(v)
			return i64(int64(v)), "int16"
		}}
	case 2:
		return pqCol{name, arrow.PrimitiveTypes.Int32, "int32", "int64", func(b array.Builder, rng *rand.Rand, null bool) (tv, string) {
			if null {
				b.AppendNull()
				return nullTV, "null"
			}
			v := int32(rng.Uint32())
			b.(*array.Int32Builder).Append(v)
			return i64(int64(v)), "int32"
		}}
	case 3:
		return pqCol{name, arrow.PrimitiveTypes.Int64, "int64", "int64", func(b array.Builder, rng *rand.Rand, null bool) (tv, string) {
			if null {
				b.AppendNull()
				return nullTV, "null"
			}
			v := int64(rng.Uint64())
			k := "int64:wide"
			switch rng.IntN(6) {
			case 0:
				v, k = math.MaxInt64, "int64:max"
			case 1:
				v, k = math.MinInt64, "int64:min"
			case 2:
				v, k = 9007199254740993, "int64:2^53+1"
			}
			b.(*array.Int64Builder).Append(v)
			return i64(v), k
		}}
	case 4:
		return pqCol{name, arrow.PrimitiveTypes.Uint8, "uint8", "int64", func(b array.Builder, rng *rand.Rand, null bool) (tv, string) {
			if null {
				b.AppendNull()
				return nullTV, "null"
			}
			v := uint8(rng.IntN(256))
			b.(*array.Uint8Builder).Append(v)
			return i64(int64(v)), "uint8"
		}}
	case 5:
		return pqCol{name, arrow.PrimitiveTypes.Uint16, "uint16", "int64", func(b array.Builder, rng *rand.Rand, null bool) (tv, string) {
			if null {
				b.AppendNull()
				return nullTV, "null"
			}
			v := uint16(rng.IntN(65536))
			b.(*array.Uint16Builder).Append(v)
			return i64(int64(v)), "uint16"
		}}
	case 6:
		return pqCol{name, arrow.PrimitiveTypes.Uint32, "uint32", "int64", func(b array.Builder, rng *rand.Rand, null bool) (tv, string) {
			if null {
				b.AppendNull()
				return nullTV, "null"
			}
			v := rng.Uint32()
			if rng.IntN(4) == 0 {
				v = math.MaxUint32
			}
			b.(*array.Uint32Builder).Append(v)
			return i64(int64(v)), "uint32"
		}}
	case 7:
		return pqCol{name, arrow.PrimitiveTypes.Uint64, "uint64 (values up to MaxInt64)", "int64", func(b array.Builder, rng *rand.Rand, null bool) (tv, string) {
			if null {
				b.AppendNull()
				return nullTV, "null"
			}
			v := rng.Uint64() >> 1
			if rng.IntN(5) == 0 {
				v = math.MaxInt64
			}
			b.(*array.Uint64Builder).Append(v)
			return i64(int64(v)), "uint64:fits-int64"
		}}
	case 8:
		return pqCol{name, arrow.PrimitiveTypes.Float32, "float32", "float64", func(b array.Builder, rng *rand.Rand, null bool) (tv, string) {
			if null {
				b.AppendNull()
				return nullTV, "null"
			}
			v := math.Float32frombits(rng.Uint32())
			k := "float32:random-bits"
			if v != v {
				k = "float32:nan"
			}
			b.(*array.Float32Builder).Append(v)
			return f64(float64(v)), k
		}}
	case 9, 10:
		return pqCol{name, arrow.PrimitiveTypes.Float64, "float64", "float64", func(b array.Builder, rng *rand.Rand, null bool) (tv, string) {
			if null {
				b.AppendNull()
				return nullTV, "null"
			}
			v := math.Float64frombits(rng.Uint64())
			k := "float64:random-bits"
			switch rng.IntN(8) {
			case 0:
				v, k = math.NaN(), "float64:nan"
			case 1:
				v, k = math.Inf(1), "float64:+inf"
			case 2:
				v, k = math.Inf(-1), "float64:-inf"
			case 3:
				v, k = math.Copysign(0, -1), "float64:minus-zero"
			case 4:
				v, k = 9007199254740993.0*3, "float64:large-integer"
			}
			if v != v {
				k = "float64:nan"
			}
			b.(*array.Float64Builder).Append(v)
			return f64(v), k
		}}
	case 11, 12:
		return pqCol{name, arrow.BinaryTypes.String, "string", "string", func(b array.Builder, rng *rand.Rand, null bool) (tv, string) {
			if null {
				b.AppendNull()
				return nullTV, "null"
			}
			s := plainWords[rng.IntN(len(plainWords))]
			k := "string:plain"
			switch rng.IntN(6) {
			case 0:
				s, k = "", "string:empty"
			case 1:
				s, k = "line1\r\nline2\t\"q\",x", "string:control-and-quote-chars"
			case 2:
				s, k = "007", "string:digits"
			case 3:
				s, k = "nul\x00inside", "string:embedded-nul"
			}
			b.(*array.StringBuilder).Append(s)
			return str([]byte(s)), k
		}}
	case 13:
		return pqCol{name, arrow.BinaryTypes.LargeString, "large_string", "string", func(b array.Builder, rng *rand.Rand, null bool) (tv, string) {
			if null {
				b.AppendNull()
				return nullTV, "null"
			}
			s := plainWords[rng.IntN(len(plainWords))]
			b.(*array.LargeStringBuilder).Append(s)
			return str([]byte(s)), "large_string"
		}}
	case 14:
		return pqCol{name, arrow.BinaryTypes.Binary, "binary", "string", func(b array.Builder, rng *rand.Rand, null bool) (tv, string) {
			if null {
				b.AppendNull()
				return nullTV, "null"
			}
			if rng.IntN(2) == 0 {
				v := []byte(plainWords[rng.IntN(len(plainWords))])
				b.(*array.BinaryBuilder).Append(v)
				return str(v), "binary:utf8-text"
			}
			v := randBytes(rng, rng.IntN(12))
			b.(*array.BinaryBuilder).Append(v)
			return str(v), "binary:arbitrary-bytes"
		}}
	case 15:
		w := 1 + rng.IntN(8)
		return pqCol{name, &arrow.FixedSizeBinaryType{ByteWidth: w}, "fixed_size_binary", "string", func(b array.Builder, rng *rand.Rand, null bool) (tv, string) {
			if null {
				b.AppendNull()
				return nullTV, "null"
			}
			v := make([]byte, w)
			for i := range v {
				v[i] = byte('a' + rng.IntN(26))
			}
			b.(*array.FixedSizeBinaryBuilder).Append(v)
			return str(v), "fixed_size_binary:text"
		}}
	case 16:
		return pqCol{name, arrow.FixedWidthTypes.Boolean, "bool", "bool", func(b array.Builder, rng *rand.Rand, null bool) (tv, string) {
			if null {
				b.AppendNull()
				return nullTV, "null"
			}
			v := rng.IntN(2) == 0
			b.(*array.BooleanBuilder).Append(v)
			return boolean(v), "bool"
		}}
	case 17:
		scale := int32(rng.IntN(7))
		dt := &arrow.Decimal128Type{Precision: 18, Scale: scale}
		return pqCol{name, dt, "decimal128(18,s)", "float64", func(b array.Builder, rng *rand.Rand, null bool) (tv, string) {
			if null {
				b.AppendNull()
				return nullTV, "null"
			}
			v := rng.Int64N(2_000_000_000_000_000) - 1_000_000_000_000_000 // <= 15-16 digits: float64(v) exact
			b.(*array.Decimal128Builder).Append(decimal128.FromI64(v))
			return f64(float64(v) / math.Pow10(int(scale))), "decimal128:15-digits"
		}}
	case 18:
		dt := &arrow.Decimal128Type{Precision: 38, Scale: 10}
		return pqCol{name, dt, "decimal128(38,10)", "float64", func(b array.Builder, rng *rand.Rand, null bool) (tv, string) {
			if null {
				b.AppendNull()
				return nullTV, "null"
			}
			bi := new(big.Int).SetUint64(rng.Uint64())
			bi.Mul(bi, new(big.Int).SetUint64(rng.Uint64()>>8))
			if rng.IntN(2) == 0 {
				bi.Neg(bi)
			}
			b.(*array.Decimal128Builder).Append(decimal128.FromBigInt(bi))
			q := new(big.Float).SetPrec(300).SetInt(bi)
			q.Quo(q, new(big.Float).SetPrec(300).SetInt(new(big.Int).Exp(big.NewInt(10), big.NewInt(10), nil)))
			f, _ := q.Float64()
			return f64(f), "decimal128:high-precision"
		}}
	default:
		unit := []arrow.TimeUnit{arrow.Second, arrow.Millisecond, arrow.Microsecond, arrow.Nanosecond}[rng.IntN(4)]
		dt := &arrow.TimestampType{Unit: unit}
		return pqCol{name, dt, "timestamp[" + unit.String() + "] (not the time column)", "int64", func(b array.Builder, rng *rand.Rand, null bool) (tv, string) {
			if null {
				b.AppendNull()
				return nullTV, "null"
			}
			us := int64(946684800_000_000) + rng.Int64N(35*365*86400_000_000)
			raw, want := tsRaw(rng, us, unit)
			b.(*array.TimestampBuilder).Append(arrow.Timestamp(raw))
			return i64(want), "timestamp[" + unit.String() + "]"
		}}
	}
}

// tsRaw renders an instant in a unit and returns the raw value and the expected µs.
func tsRaw(rng *rand.Rand, us int64, unit arrow.TimeUnit) (int64, int64) {
	switch unit {
	case arrow.Second:
		s := floorDiv(us, 1_000_000)
		return s, s * 1_000_000
	case arrow.Millisecond:
		ms := floorDiv(us, 1000)
		return ms, ms * 1000
	case arrow.Microsecond:
		return us, us
	default:
		if us < 0 {
			return us * 1000, us // whole microseconds for pre-1970 instants
		}
		return us*1000 + int64(rng.IntN(1000)), us
	}
}

func pqUnsupportedColumn(rng *rand.Rand, name string) pqCol {
	switch rng.IntN(6) {
	case 0:
		return pqCol{name, arrow.FixedWidthTypes.Date32, "date32", "", func(b array.Builder, rng *rand.Rand, null bool) (tv, string) {
			b.(*array.Date32Builder).Append(arrow.Date32(rng.IntN(20000)))
			return nullTV, ""
		}}
	case 1:
		return pqCol{name, arrow.FixedWidthTypes.Time32ms, "time32[ms]", "", func(b array.Builder, rng *rand.Rand, null bool) (tv, string) {
			b.(*array.Time32Builder).Append(arrow.Time32(rng.IntN(86400000)))
			return nullTV, ""
		}}
	case 2:
		return pqCol{name, arrow.FixedWidthTypes.Time64us, "time64[us]", "", func(b array.Builder, rng *rand.Rand, null bool) (tv, string) {
			b.(*array.Time64Builder).Append(arrow.Time64(rng.Int64N(86400000000)))
			return nullTV, ""
		}}
	case 3:
		return pqCol{name, arrow.ListOf(arrow.PrimitiveTypes.Int64), "list<int64>", "", func(b array.Builder, rng *rand.Rand, null bool) (tv, string) {
			lb := b.(*array.ListBuilder)
			lb.Append(true)
			lb.ValueBuilder().(*array.Int64Builder).Append(int64(rng.IntN(100)))
			return nullTV, ""
		}}
	case 4:
		return pqCol{name, arrow.StructOf(arrow.Field{Name: "a", Type: arrow.PrimitiveTypes.Int64, Nullable: true}), "struct", "", func(b array.Builder, rng *rand.Rand, null bool) (tv, string) {
			sb := b.(*array.StructBuilder)
			sb.Append(true)
			sb.FieldBuilder(0).(*array.Int64Builder).Append(int64(rng.IntN(100)))
			return nullTV, ""
		}}
	default:
		return pqCol{name, arrow.FixedWidthTypes.Float16, "float16", "", func(b array.Builder, rng *rand.Rand, null bool) (tv, string) {
			b.(*array.Float16Builder).Append(float16.New(float32(rng.IntN(100))))
			return nullTV, ""
		}}
	}
}

// pqTimeCol describes the time column of a generated Parquet file.
type pqTimeCol struct {
	dt     arrow.DataType
	kind   string
	format string // time_format query value
	reject string // non-empty: the importer must refuse this time column
	append func(b array.Builder, rng *rand.Rand, us int64) (int64, string)
}

func pqTimeColumn(rng *rand.Rand) pqTimeCol {
	epochFmt := func() (string, int64) {
		switch rng.IntN(4) {
		case 0:
			return "epoch_s", 1_000_000
		case 1:
			return "epoch_ms", 1000
		case 2:
			return "epoch_us", 1
		}
		return "epoch_ns", -1000
	}
	scale := func(us int64, per int64, rng *rand.Rand) (int64, int64) {
		if per > 0 {
			v := floorDiv(us, per)
			return v, v * per
		}
		if us < 0 {
			return us * 1000, us
		}
		return us*1000 + int64(rng.IntN(1000)), us
	}
	switch rng.IntN(16) {
	case 0, 1, 2, 3:
		unit := []arrow.TimeUnit{arrow.Second, arrow.Millisecond, arrow.Microsecond, arrow.Nanosecond}[rng.IntN(4)]
		tz := []string{"", "", "UTC", "Europe/Berlin"}[rng.IntN(4)]
		dt := &arrow.TimestampType{Unit: unit, TimeZone: tz}
		return pqTimeCol{dt, "timestamp[" + unit.String() + "] tz=" + tz, "", "", func(b array.Builder, rng *rand.Rand, us int64) (int64, string) {
			raw, want := tsRaw(rng, us, unit)
			b.(*array.TimestampBuilder).Append(arrow.Timestamp(raw))
			return want, "timestamp[" + unit.String() + "]"
		}}
	case 4, 5:
		f, per := epochFmt()
		return pqTimeCol{arrow.PrimitiveTypes.Int64, "int64 " + f, f, "", func(b array.Builder, rng *rand.Rand, us int64) (int64, string) {
			raw, want := scale(us, per, rng)
			b.(*array.Int64Builder).Append(raw)
			return want, "int64:" + f
		}}
	case 6:
		// auto detection on int64: instants after 1970-04-26 in ms/us/ns, any in s
		unit := rng.IntN(4)
		return pqTimeCol{arrow.PrimitiveTypes.Int64, "int64 auto-detected unit", "", "", func(b array.Builder, rng *rand.Rand, us int64) (int64, string) {
			switch unit {
			case 0:
				s := floorDiv(us, 1_000_000)
				b.(*array.Int64Builder).Append(s)
				return s * 1_000_000, "int64:auto-seconds"
			case 1:
				us = autoBand(us)
				b.(*array.Int64Builder).Append(us / 1000)
				return us / 1000 * 1000, "int64:auto-milliseconds"
			case 2:
				us = autoBand(us)
				b.(*array.Int64Builder).Append(us)
				return us, "int64:auto-microseconds"
			}
			us = autoBand(us)
			b.(*array.Int64Builder).Append(us*1000 + int64(rng.IntN(1000)))
			return us, "int64:auto-nanoseconds"
		}}
	case 7:
		return pqTimeCol{arrow.PrimitiveTypes.Int32, "int32 epoch_s", "epoch_s", "", func(b array.Builder, rng *rand.Rand, us int64) (int64, string) {
			s := floorDiv(us, 1_000_000)
			if s > math.MaxInt32 || s < math.MinInt32 {
				s = s % math.MaxInt32
			}
			b.(*array.Int32Builder).Append(int32(s))
			return s * 1_000_000, "int32:epoch_s"
		}}
	case 8:
		f, per := epochFmt()
		return pqTimeCol{arrow.PrimitiveTypes.Uint64, "uint64 " + f, f, "", func(b array.Builder, rng *rand.Rand, us int64) (int64, string) {
			if us < 0 {
				us = -us
			}
			raw, want := scale(us, per, rng)
			b.(*array.Uint64Builder).Append(uint64(raw))
			return want, "uint64:" + f
		}}
	case 9:
		return pqTimeCol{arrow.PrimitiveTypes.Uint32, "uint32 epoch_s", "epoch_s", "", func(b array.Builder, rng *rand.Rand, us int64) (int64, string) {
			if us < 0 {
				us = -us
			}
			s := (us / 1_000_000) % math.MaxUint32
			b.(*array.Uint32Builder).Append(uint32(s))
			return s * 1_000_000, "uint32:epoch_s"
		}}
	case 10:
		// float64 fractional epoch: dyadic fractions so that the value times the unit is an exact integer
		f := []string{"epoch_s", "epoch_ms", ""}[rng.IntN(3)]
		return pqTimeCol{arrow.PrimitiveTypes.Float64, "float64 fractional epoch " + f, f, "", func(b array.Builder, rng *rand.Rand, us int64) (int64, string) {
			if us < 0 {
				us = -us
			}
			if f == "epoch_ms" {
				ms := us / 1000
				frac := int64(rng.IntN(8)) * 125 // µs
				b.(*array.Float64Builder).Append(float64(ms) + float64(frac)/1000)
				return ms*1000 + frac, "float64:" + f
			}
			s := us / 1_000_000
			frac := int64(rng.IntN(8)) * 125000
			b.(*array.Float64Builder).Append(float64(s) + float64(frac)/1e6)
			return s*1_000_000 + frac, "float64:seconds " + f
		}}
	case 11:
		return pqTimeCol{arrow.PrimitiveTypes.Float32, "float32 epoch_s", "epoch_s", "", func(b array.Builder, rng *rand.Rand, us int64) (int64, string) {
			if us < 0 {
				us = -us
			}
			s := us / 1_000_000 / 256 * 256 // exactly representable in float32 up to 2^32
			b.(*array.Float32Builder).Append(float32(s))
			return s * 1_000_000, "float32:epoch_s"
		}}
	case 12:
		return pqTimeCol{arrow.BinaryTypes.String, "string textual", "", "", func(b array.Builder, rng *rand.Rand, us int64) (int64, string) {
			plans := timePlans()
			tc := plans[[]int{11, 12, 13, 14, 15, 16}[rng.IntN(6)]].gen(rng, us)
			b.(*array.StringBuilder).Append(tc.text)
			return tc.us, "string:" + tc.kind
		}}
	case 13:
		return pqTimeCol{arrow.BinaryTypes.Binary, "binary epoch_ms text", "epoch_ms", "", func(b array.Builder, rng *rand.Rand, us int64) (int64, string) {
			ms := floorDiv(us, 1000)
			b.(*array.BinaryBuilder).Append([]byte(fmt.Sprintf("%d", ms)))
			return ms * 1000, "binary:epoch_ms-integer-text"
		}}
	case 14:
		return pqTimeCol{&arrow.FixedSizeBinaryType{ByteWidth: 10}, "fixed_size_binary(10) date", "", "", func(b array.Builder, rng *rand.Rand, us int64) (int64, string) {
			d := floorDiv(us, 86400_000_000) * 86400_000_000
			if d < -62135596800_000_000 {
				d = 0
			}
			b.(*array.FixedSizeBinaryBuilder).Append([]byte(time.UnixMicro(d).UTC().Format("2006-01-02")))
			return d, "fixed_size_binary:date"
		}}
	default:
		// time column types the importer does not list
		switch rng.IntN(3) {
		case 0:
			return pqTimeCol{arrow.PrimitiveTypes.Int8, "int8", "epoch_s", "time column of type int8", func(b array.Builder, rng *rand.Rand, us int64) (int64, string) {
				b.(*array.Int8Builder).Append(int8(rng.IntN(100)))
				return 0, ""
			}}
		case 1:
			return pqTimeCol{arrow.FixedWidthTypes.Date32, "date32", "", "time column of type date32", func(b array.Builder, rng *rand.Rand, us int64) (int64, string) {
				b.(*array.Date32Builder).Append(arrow.Date32(rng.IntN(20000)))
				return 0, ""
			}}
		default:
			return pqTimeCol{arrow.FixedWidthTypes.Boolean, "bool", "", "time column of type bool", func(b array.Builder, rng *rand.Rand, us int64) (int64, string) {
				b.(*array.BooleanBuilder).Append(true)
				return 0, ""
			}}
		}
	}
}

// chunkProbe (debug aid) prints how many chunks pqarrow.ReadTable delivers per column.
func chunkProbe(body []byte) {
	pf, err := file.NewParquetReader(bytes.NewReader(body))
	if err != nil {
		return
	}
	defer pf.Close()
	fr, err := pqarrow.NewFileReader(pf, pqarrow.ArrowReadProperties{}, nil)
	if err != nil {
		return
	}
	tbl, err := fr.ReadTable(context.Background())
	if err != nil {
		return
	}
	defer tbl.Release()
	if tbl.NumCols() > 0 {
		fmt.Printf("DEBUG chunks=%d row_groups=%d rows=%d\n", len(tbl.Column(0).Data().Chunks()), pf.NumRowGroups(), tbl.NumRows())
	}
}

func genParquetCase(rng *rand.Rand, id int, nextRID *int64) *fileCase {
	fc := &fileCase{ID: id, Format: "parquet", Expect: "accept"}
	n := 1 + rng.IntN(50)
	switch rng.IntN(20) {
	case 0:
		n = 1
	case 1:
		n = 1001 + rng.IntN(300)
	}
	tcol := pqTimeColumn(rng)
	fc.TimeFmt = tcol.format
	fc.Features = append(fc.Features, "time="+tcol.kind)
	timeName := "time"
	if rng.IntN(3) == 0 {
		timeName = []string{"ts", "event_time", "Timestamp"}[rng.IntN(3)]
		fc.Params = append(fc.Params, [2]string{"time_column", timeName})
	}
	if tcol.format != "" {
		fc.Params = append(fc.Params, [2]string{"time_format", tcol.format})
	}
	if tcol.reject != "" {
		fc.Expect, fc.RejectWhy = "reject", tcol.reject
	}

	nExtra := rng.IntN(6)
	var cols []pqCol
	used := map[string]bool{timeName: true, "rid": true, "time": true}
	for k := 0; k < nExtra; k++ {
		name := colNameWords[rng.IntN(len(colNameWords))]
		for used[name] {
			name = fmt.Sprintf("%s_%d", colNameWords[rng.IntN(len(colNameWords))], rng.IntN(100))
		}
		used[name] = true
		c := pqSupportedColumn(rng, name)
		cols = append(cols, c)
		fc.Features = append(fc.Features, "column: "+c.kind)
	}
	wrapCol := -1
	if rng.IntN(20) == 0 {
		// a uint64 column carrying values above MaxInt64 (not representable in the stored int64 type)
		wrapCol = len(cols)
		cols = append(cols, pqCol{"big_counter", arrow.PrimitiveTypes.Uint64, "uint64 (values above MaxInt64)", "int64", func(b array.Builder, rng *rand.Rand, null bool) (tv, string) {
			v := rng.Uint64() | 1<<63
			b.(*array.Uint64Builder).Append(v)
			return unrepresentable(), "uint64:above-maxint64"
		}})
		fc.Features = append(fc.Features, "column: uint64 with values above MaxInt64")
	}
	if rng.IntN(25) == 0 {
		name := []string{"_internal", "_x"}[rng.IntN(2)]
		c := pqSupportedColumn(rng, name)
		cols = append(cols, c)
		fc.DropSuspectCols = append(fc.DropSuspectCols, name)
		fc.Features = append(fc.Features, "column name with leading underscore")
	}
	if fc.Expect == "accept" && rng.IntN(10) == 0 {
		c := pqUnsupportedColumn(rng, "odd")
		cols = append(cols, c)
		fc.Expect, fc.RejectWhy = "reject", "column of type "+c.kind
		fc.Features = append(fc.Features, "must be rejected: "+fc.RejectWhy)
	}
	nullTime := -1
	if fc.Expect == "accept" && rng.IntN(15) == 0 && n > 1 {
		nullTime = n - 1 - rng.IntN(min(3, n))
		fc.Expect, fc.RejectWhy = "reject", "null in the time column in a late row"
		fc.Features = append(fc.Features, "must be rejected: "+fc.RejectWhy)
	}
	missingTime := fc.Expect == "accept" && rng.IntN(25) == 0
	if missingTime {
		fc.Expect, fc.RejectWhy = "reject", "time column not in the file"
		fc.Features = append(fc.Features, "must be rejected: "+fc.RejectWhy)
	}
	_ = wrapCol

	// schema: rid, time and the others in random order
	type slot struct {
		isT, isRID bool
		ci         int
	}
	slots := []slot{{isRID: true}}
	if !missingTime {
		slots = append(slots, slot{isT: true})
	}
	for i := range cols {
		slots = append(slots, slot{ci: i})
	}
	rng.Shuffle(len(slots), func(i, j int) { slots[i], slots[j] = slots[j], slots[i] })
	fields := make([]arrow.Field, len(slots))
	for i, s := range slots {
		switch {
		case s.isT:
			fields[i] = arrow.Field{Name: timeName, Type: tcol.dt, Nullable: true}
			fc.RespCols = append(fc.RespCols, "time")
		case s.isRID:
			fields[i] = arrow.Field{Name: "rid", Type: arrow.PrimitiveTypes.Int64, Nullable: true}
			fc.RespCols = append(fc.RespCols, "rid")
		default:
			fields[i] = arrow.Field{Name: cols[s.ci].name, Type: cols[s.ci].dt, Nullable: true}
			fc.RespCols = append(fc.RespCols, cols[s.ci].name)
		}
	}
	schema := arrow.NewSchema(fields, nil)
	rb := array.NewRecordBuilder(memory.DefaultAllocator, schema)
	defer rb.Release()

	nullP := make([]bool, len(cols))
	for i := range nullP {
		nullP[i] = rng.IntN(3) == 0
	}
	base := int64(946684800_000_000) + rng.Int64N(35*365*86400_000_000)
	if rng.IntN(8) == 0 {
		base = -rng.Int64N(40 * 365 * 86400_000_000)
	}
	spread := rng.IntN(3)
	if n > 1000 {
		spread = rng.IntN(2)
	}
	for _, c := range cols {
		fc.Cols = append(fc.Cols, colTruth{Name: c.name, Type: c.outType, Note: c.kind})
	}
	fc.Rows = make([]rowTruth, n)
	for r := 0; r < n; r++ {
		*nextRID++
		rt := rowTruth{RID: *nextRID, Pos: "middle", Vals: make([]tv, len(cols)), Kinds: make([]string, len(cols))}
		switch {
		case n == 1:
			rt.Pos = "only"
		case r == 0:
			rt.Pos = "first"
		case r == n-1:
			rt.Pos = "last"
		}
		us := genInstant(rng, base, spread)
		for i, s := range slots {
			b := rb.Field(i)
			switch {
			case s.isRID:
				b.(*array.Int64Builder).Append(rt.RID)
			case s.isT:
				if r == nullTime {
					b.AppendNull()
				} else {
					rt.TimeUS, rt.TimeKind = tcol.append(b, rng, us)
				}
			default:
				c := cols[s.ci]
				null := nullP[s.ci] && rng.IntN(4) == 0 && c.outType != ""
				rt.Vals[s.ci], rt.Kinds[s.ci] = c.append(b, rng, null)
			}
		}
		fc.Rows[r] = rt
	}
	rec := rb.NewRecord()
	defer rec.Release()

	var buf bytes.Buffer
	wopts := []parquet.WriterProperty{parquet.WithVersion(parquet.V2_LATEST)}
	if rng.IntN(2) == 0 {
		wopts = append(wopts, parquet.WithMaxRowGroupLength(int64(1+rng.IntN(9))))
		fc.Features = append(fc.Features, "several row groups")
	}
	if rng.IntN(2) == 0 {
		wopts = append(wopts, parquet.WithDictionaryDefault(false))
	}
	var aopts []pqarrow.WriterOption
	hasLarge := false
	for _, c := range cols {
		if c.kind == "large_string" {
			hasLarge = true
		}
	}
	if !hasLarge && rng.IntN(3) == 0 {
		aopts = append(aopts, pqarrow.WithStoreSchema())
		fc.Features = append(fc.Features, "arrow schema stored in the file")
	}
	w, err := pqarrow.NewFileWriter(schema, &buf, parquet.NewWriterProperties(wopts...), pqarrow.NewArrowWriterProperties(aopts...))
	if err != nil {
		panic(fmt.Sprintf("generator: parquet writer: %v (schema %s)", err, schema))
	}
	if err := w.Write(rec); err != nil {
		panic(fmt.Sprintf("generator: parquet write: %v (schema %s)", err, schema))
	}
	if err := w.Close(); err != nil {
		panic(fmt.Sprintf("generator: parquet close: %v", err))
	}
	fc.Body = buf.Bytes()
	if os.Getenv("VERIF_DEBUG_CHUNKS") != "" {
		chunkProbe(fc.Body)
	}

	if fc.Expect == "accept" && rng.IntN(25) == 0 {
		fc.setParam("time_format", "epoch_fortnights")
		if _, isTS := tcol.dt.(*arrow.TimestampType); isTS {
			// a TIMESTAMP column carries its own unit; the format parameter is not consulted
			fc.Expect = "either"
		} else {
			fc.Expect, fc.RejectWhy = "reject", "unsupported time_format"
		}
		fc.Features = append(fc.Features, "unsupported time_format parameter")
	}
	return fc
}
