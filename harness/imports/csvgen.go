package main

// CSV generator with ground truth. Values are constructed first (typed), then
// rendered to text; the expected column type follows the importer's documented
// inference order (int64, then float64, then bool, else string; empty cells are
// nulls in int/float/bool columns and "" in string columns; an all-empty column is
// a string column), applied to the generator's own per-cell capability flags.

import (
	"fmt"
	"math"
	"math/rand/v2"
	"strconv"
	"strings"
	"time"
)

// tv is one expected stored value.
type tv struct {
	K string `json:"k"` // null | int | float | bool | str
	I int64  `json:"i,omitempty"`
	F uint64 `json:"f,omitempty"` // float64 bits
	B bool   `json:"b,omitempty"`
	S []byte `json:"s,omitempty"`
}

func (v tv) String() string {
	switch v.K {
	case "null":
		return "NULL"
	case "int":
		return fmt.Sprintf("int64(%d)", v.I)
	case "float":
		return fmt.Sprintf("float64(%v)", math.Float64frombits(v.F))
	case "bool":
		return fmt.Sprintf("bool(%v)", v.B)
	}
	return fmt.Sprintf("string(%q)", string(v.S))
}

type colTruth struct {
	Name string `json:"name"`
	Type string `json:"type"` // int64 | float64 | bool | string
	Note string `json:"note,omitempty"`
}

type rowTruth struct {
	RID      int64    `json:"rid"`
	TimeUS   int64    `json:"time_us"`
	TimeKind string   `json:"time_kind"`
	TimeText string   `json:"time_text,omitempty"`
	Vals     []tv     `json:"vals"`  // aligned with Cols
	Kinds    []string `json:"kinds"` // cell classification, aligned with Cols
	Texts    []string `json:"texts,omitempty"`
	Pos      string   `json:"pos"` // first | middle | last | only
}

type fileCase struct {
	ID        int         `json:"id"`
	Format    string      `json:"format"` // csv | parquet
	DB        string      `json:"db"`
	Meas      string      `json:"measurement"`
	HdrDB     string      `json:"hdr_db,omitempty"`
	Params    [][2]string `json:"params"`
	Body      []byte      `json:"body"`
	Features  []string    `json:"features"`
	Expect    string      `json:"expect"` // accept | reject | either
	RejectWhy string      `json:"reject_why,omitempty"`
	Cols      []colTruth  `json:"cols"`
	Rows      []rowTruth  `json:"rows"`
	RespCols  []string    `json:"resp_cols,omitempty"`
	TimeFmt   string      `json:"time_format"`
	// Special marks files whose stored columns are expected to differ in a classified
	// way (column names the storage layer is suspected to drop, surplus cells).
	DropSuspectCols []string `json:"drop_suspect_cols,omitempty"`
	SurplusRows     []int64  `json:"surplus_rows,omitempty"` // rids of rows carrying a cell beyond the header
	// BOMQuotedFirst names the first header column when the file starts with a UTF-8
	// BOM directly followed by a quoted header name.
	BOMQuotedFirst string `json:"bom_quoted_first,omitempty"`
}

// ---- cells ----

type cell struct {
	text     string
	kind     string
	canInt   bool
	canFloat bool
	canBool  bool
	empty    bool
	i        int64
	f        float64
	b        bool
}

func intCell(v int64, text, kind string) cell {
	c := cell{text: text, kind: kind, canInt: true, canFloat: true, i: v, f: float64(v)}
	if text == "1" || text == "0" {
		c.canBool = true
		c.b = text == "1"
	}
	return c
}

func genIntCell(rng *rand.Rand, edgy bool) cell {
	if !edgy {
		v := int64(rng.IntN(2000)) - 1000
		return intCell(v, fmt.Sprintf("%d", v), "int:plain")
	}
	switch rng.IntN(12) {
	case 0:
		return intCell(9007199254740993, "9007199254740993", "int:2^53+1")
	case 1:
		return intCell(-9007199254740993, "-9007199254740993", "int:-(2^53+1)")
	case 2:
		return intCell(math.MaxInt64, "9223372036854775807", "int:maxint64")
	case 3:
		return intCell(math.MinInt64, "-9223372036854775808", "int:minint64")
	case 4:
		v := int64(rng.IntN(1000))
		return intCell(v, fmt.Sprintf("%05d", v), "int:leading-zeros")
	case 5:
		v := int64(rng.IntN(1000))
		return intCell(v, fmt.Sprintf("+%d", v), "int:plus-sign")
	case 6:
		return intCell(0, "-0", "int:minus-zero")
	case 7:
		// 17-19 digit integers: exact in int64, not in float64
		v := int64(rng.Uint64()>>2) | 1
		if rng.IntN(2) == 0 {
			v = -v
		}
		return intCell(v, fmt.Sprintf("%d", v), "int:wide")
	case 8:
		v := int64(rng.IntN(2))
		return intCell(v, fmt.Sprintf("%d", v), "int:0or1")
	default:
		v := rng.Int64N(1<<40) - 1<<39
		return intCell(v, fmt.Sprintf("%d", v), "int:plain")
	}
}

func floatCell(f float64, text, kind string) cell {
	return cell{text: text, kind: kind, canFloat: true, f: f}
}

func genFloatCell(rng *rand.Rand, edgy bool) cell {
	if !edgy {
		f := math.Round(rng.NormFloat64()*1e4) / 100
		return floatCell(f, fmtFloat(f), "float:plain")
	}
	switch rng.IntN(20) {
	case 0:
		return floatCell(1000, "1e3", "float:exponent")
	case 1:
		return floatCell(1000, "1E3", "float:exponent")
	case 2:
		return floatCell(0.5, ".5", "float:no-leading-digit")
	case 3:
		return floatCell(5, "5.", "float:no-fraction-digits")
	case 4:
		return floatCell(math.Copysign(0, -1), "-0.0", "float:minus-zero")
	case 5:
		return floatCell(math.NaN(), []string{"NaN", "nan", "NAN"}[rng.IntN(3)], "float:nan")
	case 6:
		return floatCell(math.Inf(1), []string{"Inf", "+Inf", "inf", "Infinity", "+infinity"}[rng.IntN(5)], "float:+inf")
	case 7:
		return floatCell(math.Inf(-1), []string{"-Inf", "-inf", "-Infinity"}[rng.IntN(3)], "float:-inf")
	case 8:
		return floatCell(math.MaxFloat64, "1.7976931348623157e308", "float:max")
	case 9:
		return floatCell(math.SmallestNonzeroFloat64, "5e-324", "float:denormal-min")
	case 10:
		return floatCell(0.25, "0x1p-2", "float:hex")
	case 11:
		return floatCell(9223372036854775808.0, "9223372036854775808", "float:integer-beyond-int64")
	case 12:
		return floatCell(18446744073709551615.0, "18446744073709551615", "float:integer-beyond-int64")
	case 13:
		return floatCell(123456789012345678901234567890.0, "123456789012345678901234567890", "float:integer-beyond-int64")
	case 14:
		return floatCell(0.1234567890123456789, "0.1234567890123456789", "float:many-digits")
	case 15:
		return floatCell(-2.25e-3, "-2.25e-3", "float:exponent")
	case 16:
		return floatCell(1e22, "1e+22", "float:exponent")
	default:
		f := math.Float64frombits(rng.Uint64())
		for math.IsNaN(f) || math.IsInf(f, 0) {
			f = math.Float64frombits(rng.Uint64())
		}
		return floatCell(f, fmtFloat(f), "float:random-bits")
	}
}

func fmtFloat(f float64) string {
	s := fmt.Sprintf("%v", f) // shortest representation that round-trips
	if !strings.ContainsAny(s, ".eEIN") {
		s += ".0" // keep it a float literal (a bare integer would be an int cell)
	}
	return s
}

func genBoolCell(rng *rand.Rand, words bool) cell {
	b := rng.IntN(2) == 0
	var text string
	if words {
		if b {
			text = []string{"true", "TRUE", "True", "tRuE"}[rng.IntN(4)]
		} else {
			text = []string{"false", "FALSE", "False", "fAlSe"}[rng.IntN(4)]
		}
		return cell{text: text, kind: "bool:word", canBool: true, b: b}
	}
	if b {
		return intCell(1, "1", "int:0or1")
	}
	return intCell(0, "0", "int:0or1")
}

var plainWords = []string{"alpha", "beta", "gamma", "delta", "server01", "us-east", "ok", "x", "Zürich", "東京", "naïve café"}

func genStringCell(rng *rand.Rand, delim rune, edgy bool) cell {
	if !edgy {
		return cell{text: plainWords[rng.IntN(len(plainWords))], kind: "str:plain"}
	}
	d := string(delim)
	switch rng.IntN(22) {
	case 0:
		return cell{text: "a" + d + "b", kind: "str:embedded-delimiter"}
	case 1:
		return cell{text: `say "hi"`, kind: "str:embedded-quote"}
	case 2:
		return cell{text: `"quoted"`, kind: "str:leading-quote"}
	case 3:
		return cell{text: "line1\nline2", kind: "str:embedded-newline"}
	case 4:
		return cell{text: "a" + d + "\"b\"\n" + d + "c", kind: "str:embedded-delimiter+quote+newline"}
	case 5:
		return cell{text: " 5", kind: "str:number-with-leading-space"}
	case 6:
		return cell{text: "5 ", kind: "str:number-with-trailing-space"}
	case 7:
		return floatCell(1000, "1_000", "float:underscore-separated") // Go float syntax: digit separators are accepted
	case 8:
		return cell{text: "1e400", kind: "str:float-out-of-range"}
	case 9:
		return cell{text: "0x10", kind: "str:numeric-lookalike"}
	case 10:
		return cell{text: "12abc", kind: "str:numeric-lookalike"}
	case 11:
		return cell{text: []string{"T", "F", "t", "f", "yes", "no", "Y", "N", "on", "off"}[rng.IntN(10)], kind: "str:bool-lookalike"}
	case 12:
		return cell{text: []string{"null", "NULL", `\N`, "NA", "None", "-"}[rng.IntN(6)], kind: "str:null-lookalike"}
	case 13:
		return cell{text: "  ", kind: "str:only-spaces"}
	case 14:
		return intCell(7, "007", "int:leading-zeros") // among strings the column is a string column and must keep "007"
	case 15:
		return cell{text: "1,5", kind: "str:decimal-comma"}
	case 16:
		return cell{text: "99999999999999999999999999999999999999999e999999", kind: "str:float-out-of-range"}
	case 17:
		return cell{text: "=SUM(A1:A2)", kind: "str:formula"}
	case 18:
		return cell{text: "tab\there", kind: "str:embedded-tab"}
	case 19:
		return cell{text: strings.Repeat("long", 200+rng.IntN(300)), kind: "str:long"}
	case 20:
		return cell{text: "\"", kind: "str:single-quote-char"}
	default:
		return cell{text: plainWords[rng.IntN(len(plainWords))] + " " + plainWords[rng.IntN(len(plainWords))], kind: "str:plain"}
	}
}

var emptyCell = cell{text: "", kind: "empty", empty: true}

// genColumn draws n cells according to a plan and returns them with the column's
// expected type and values.
func genColumn(rng *rand.Rand, n int, delim rune) ([]cell, string, string) {
	cells := make([]cell, n)
	plan := rng.IntN(16)
	withEmpty := rng.IntN(3) == 0
	note := ""
	for i := range cells {
		if withEmpty && rng.IntN(4) == 0 {
			cells[i] = emptyCell
			continue
		}
		switch plan {
		case 0, 1: // integers, plain
			cells[i] = genIntCell(rng, false)
			note = "plain integers"
		case 2, 3: // integers with edge forms
			cells[i] = genIntCell(rng, true)
			note = "integers with edge forms"
		case 4: // floats
			cells[i] = genFloatCell(rng, false)
			note = "plain floats"
		case 5: // floats with edge forms
			cells[i] = genFloatCell(rng, true)
			note = "floats with edge forms"
		case 6: // integers and floats mixed (first cells integer)
			if i < n/2 || rng.IntN(2) == 0 {
				cells[i] = genIntCell(rng, true)
			} else {
				cells[i] = genFloatCell(rng, rng.IntN(2) == 0)
			}
			note = "integers then floats"
		case 7: // bool words
			cells[i] = genBoolCell(rng, true)
			note = "bool words"
		case 8: // bool words and 0/1
			cells[i] = genBoolCell(rng, rng.IntN(2) == 0)
			note = "bool words and 0/1"
		case 9: // only 0/1
			cells[i] = genBoolCell(rng, false)
			note = "only 0/1"
		case 10: // strings plain
			cells[i] = genStringCell(rng, delim, false)
			note = "plain strings"
		case 11: // strings edgy
			cells[i] = genStringCell(rng, delim, true)
			note = "strings with edge forms"
		case 12: // numeric in the first rows, a string later
			if i < n-1-rng.IntN(max(1, n/3)) {
				cells[i] = genIntCell(rng, true)
			} else {
				cells[i] = genStringCell(rng, delim, rng.IntN(2) == 0)
			}
			note = "numeric first, string later"
		case 13: // floats then a bool word (-> string)
			if i < n-1 {
				cells[i] = genFloatCell(rng, false)
			} else {
				cells[i] = genBoolCell(rng, true)
			}
			note = "floats then a bool word"
		case 14: // all empty
			cells[i] = emptyCell
			note = "all empty"
		default: // anything
			switch rng.IntN(4) {
			case 0:
				cells[i] = genIntCell(rng, true)
			case 1:
				cells[i] = genFloatCell(rng, true)
			case 2:
				cells[i] = genBoolCell(rng, true)
			default:
				cells[i] = genStringCell(rng, delim, true)
			}
			note = "mixed kinds"
		}
	}
	for _, cl := range cells {
		checkFlags(cl)
	}
	return cells, inferType(cells), note
}

// checkFlags is a generator self-test: the capability flags of a cell must agree
// with Go's number syntax (what "parses as an integer / a float" means for the
// documented inference) and with the documented boolean literals.
func checkFlags(cl cell) {
	if cl.empty {
		return
	}
	_, ierr := strconv.ParseInt(cl.text, 10, 64)
	_, ferr := strconv.ParseFloat(cl.text, 64)
	lower := strings.ToLower(cl.text)
	isBool := lower == "true" || lower == "false" || cl.text == "1" || cl.text == "0"
	if (ierr == nil) != cl.canInt || (ferr == nil) != cl.canFloat || isBool != cl.canBool {
		panic(fmt.Sprintf("generator self-test: cell %q (%s) flags int=%v float=%v bool=%v disagree with Go syntax (int ok=%v, float ok=%v, bool=%v)",
			cl.text, cl.kind, cl.canInt, cl.canFloat, cl.canBool, ierr == nil, ferr == nil, isBool))
	}
}

// inferType applies the documented inference order to the generator's flags.
func inferType(cells []cell) string {
	isInt, isFloat, isBool, hasValue := true, true, true, false
	for _, c := range cells {
		if c.empty {
			continue
		}
		hasValue = true
		isInt = isInt && c.canInt
		isFloat = isFloat && c.canFloat
		isBool = isBool && c.canBool
	}
	switch {
	case !hasValue:
		return "string"
	case isInt:
		return "int64"
	case isFloat:
		return "float64"
	case isBool:
		return "bool"
	}
	return "string"
}

func expectCell(c cell, typ string) tv {
	if typ == "string" {
		return tv{K: "str", S: []byte(c.text)}
	}
	if c.empty {
		return tv{K: "null"}
	}
	switch typ {
	case "int64":
		return tv{K: "int", I: c.i}
	case "float64":
		return tv{K: "float", F: math.Float64bits(c.f)}
	default:
		return tv{K: "bool", B: c.b}
	}
}

// ---- time column ----

type timeCell struct {
	text string
	us   int64
	kind string
}

// time plans. Each returns the time_format query value ("" = auto), and a
// generator for one cell given the wanted instant (µs, sub-µs nanos).
type timePlan struct {
	name   string
	format string
	gen    func(rng *rand.Rand, us int64) timeCell
}

func floorDiv(a, b int64) int64 {
	q := a / b
	if a%b != 0 && (a < 0) != (b < 0) {
		q--
	}
	return q
}

func timePlans() []timePlan {
	utc := func(us int64) time.Time { return time.UnixMicro(us).UTC() }
	return []timePlan{
		{"epoch_s integer", "epoch_s", func(rng *rand.Rand, us int64) timeCell {
			s := floorDiv(us, 1_000_000)
			return timeCell{fmt.Sprintf("%d", s), s * 1_000_000, "epoch_s:integer"}
		}},
		{"epoch_s fractional", "epoch_s", func(rng *rand.Rand, us int64) timeCell {
			if us < 0 {
				us = -us
			}
			digits := 1 + rng.IntN(6)
			s, frac := us/1_000_000, us%1_000_000
			p := int64(math.Pow10(6 - digits))
			frac = frac / p * p
			return timeCell{fmt.Sprintf("%d.%0*d", s, digits, frac/p), s*1_000_000 + frac, "epoch_s:fractional"}
		}},
		{"epoch_ms integer", "epoch_ms", func(rng *rand.Rand, us int64) timeCell {
			ms := floorDiv(us, 1000)
			return timeCell{fmt.Sprintf("%d", ms), ms * 1000, "epoch_ms:integer"}
		}},
		{"epoch_ms fractional", "epoch_ms", func(rng *rand.Rand, us int64) timeCell {
			if us < 0 {
				us = -us
			}
			digits := 1 + rng.IntN(3)
			ms, frac := us/1000, us%1000
			p := int64(math.Pow10(3 - digits))
			frac = frac / p * p
			return timeCell{fmt.Sprintf("%d.%0*d", ms, digits, frac/p), ms*1000 + frac, "epoch_ms:fractional"}
		}},
		{"epoch_us integer", "epoch_us", func(rng *rand.Rand, us int64) timeCell {
			return timeCell{fmt.Sprintf("%d", us), us, "epoch_us:integer"}
		}},
		{"epoch_ns integer", "epoch_ns", func(rng *rand.Rand, us int64) timeCell {
			sub := int64(0)
			if us >= 0 {
				sub = int64(rng.IntN(1000)) // sub-microsecond part is dropped (positive values only)
			}
			return timeCell{fmt.Sprintf("%d", us*1000+sub), us, "epoch_ns:integer"}
		}},
		{"auto integer seconds", "", func(rng *rand.Rand, us int64) timeCell {
			s := floorDiv(us, 1_000_000)
			return timeCell{fmt.Sprintf("%d", s), s * 1_000_000, "auto:integer-seconds"}
		}},
		{"auto integer milliseconds", "", func(rng *rand.Rand, us int64) timeCell {
			us = autoBand(us)
			ms := us / 1000
			return timeCell{fmt.Sprintf("%d", ms), ms * 1000, "auto:integer-milliseconds"}
		}},
		{"auto integer microseconds", "", func(rng *rand.Rand, us int64) timeCell {
			us = autoBand(us)
			return timeCell{fmt.Sprintf("%d", us), us, "auto:integer-microseconds"}
		}},
		{"auto integer nanoseconds", "", func(rng *rand.Rand, us int64) timeCell {
			us = autoBand(us)
			return timeCell{fmt.Sprintf("%d", us*1000+int64(rng.IntN(1000))), us, "auto:integer-nanoseconds"}
		}},
		{"auto fractional seconds", "", func(rng *rand.Rand, us int64) timeCell {
			if us < 0 {
				us = -us
			}
			digits := 1 + rng.IntN(6)
			s, frac := us/1_000_000, us%1_000_000
			p := int64(math.Pow10(6 - digits))
			frac = frac / p * p
			return timeCell{fmt.Sprintf("%d.%0*d", s, digits, frac/p), s*1_000_000 + frac, "auto:fractional-seconds"}
		}},
		{"auto RFC3339", "", func(rng *rand.Rand, us int64) timeCell {
			s := floorDiv(us, 1_000_000) * 1_000_000
			switch rng.IntN(3) {
			case 0:
				return timeCell{utc(s).Format("2006-01-02T15:04:05Z"), s, "auto:rfc3339-utc"}
			case 1:
				loc := time.FixedZone("", (rng.IntN(27)-12)*3600+[]int{0, 1800, 2700}[rng.IntN(3)])
				return timeCell{utc(s).In(loc).Format(time.RFC3339), s, "auto:rfc3339-offset"}
			default:
				return timeCell{utc(us).Format("2006-01-02T15:04:05.000000Z"), us, "auto:rfc3339-micro-fraction"}
			}
		}},
		{"auto RFC3339Nano", "", func(rng *rand.Rand, us int64) timeCell {
			ns := rng.IntN(1000)
			t := utc(us).Add(time.Duration(ns))
			return timeCell{t.Format("2006-01-02T15:04:05.000000000Z07:00"), us, "auto:rfc3339-nano-fraction"}
		}},
		{"auto 'YYYY-MM-DD HH:MM:SS'", "", func(rng *rand.Rand, us int64) timeCell {
			s := floorDiv(us, 1_000_000) * 1_000_000
			return timeCell{utc(s).Format("2006-01-02 15:04:05"), s, "auto:space-separated"}
		}},
		{"auto 'YYYY-MM-DD HH:MM:SS.ffffff'", "", func(rng *rand.Rand, us int64) timeCell {
			return timeCell{utc(us).Format("2006-01-02 15:04:05.000000"), us, "auto:space-separated-fraction"}
		}},
		{"auto 'YYYY-MM-DDTHH:MM:SS'", "", func(rng *rand.Rand, us int64) timeCell {
			s := floorDiv(us, 1_000_000) * 1_000_000
			return timeCell{utc(s).Format("2006-01-02T15:04:05"), s, "auto:T-separated-no-zone"}
		}},
		{"auto 'YYYY-MM-DD'", "", func(rng *rand.Rand, us int64) timeCell {
			d := floorDiv(us, 86400_000_000) * 86400_000_000
			return timeCell{utc(d).Format("2006-01-02"), d, "auto:date-only"}
		}},
		{"auto mixed textual layouts", "", nil}, // filled in by genTimeColumn
	}
}

// autoBand moves an instant into the range where the documented magnitude
// heuristic classifies ms / µs / ns epochs as such (after 1970-04-26).
func autoBand(us int64) int64 {
	const lo = int64(1e13) // µs; also 1e10 ms and 1e16 ns
	if us < 0 {
		us = -us
	}
	if us < lo {
		us += lo
	}
	return us
}

func genInstant(rng *rand.Rand, base int64, spread int) int64 {
	switch spread {
	case 0: // same hour
		h := floorDiv(base, 3600_000_000) * 3600_000_000
		return h + rng.Int64N(3600_000_000)
	case 1: // a few hours
		return base + rng.Int64N(5*3600_000_000)
	default: // years
		return base + rng.Int64N(5*365*86400_000_000)
	}
}

func genTimeColumn(rng *rand.Rand, n int) ([]timeCell, string, string) {
	maxSpread := 3
	if n > 1000 {
		maxSpread = 2
	}
	plans := timePlans()
	pi := rng.IntN(len(plans))
	plan := plans[pi]
	// base instant: mostly 2000..2035, sometimes before 1970
	base := int64(946684800_000_000) + rng.Int64N(35*365*86400_000_000)
	if rng.IntN(8) == 0 {
		base = -rng.Int64N(40 * 365 * 86400_000_000)
	}
	spread := rng.IntN(maxSpread)
	out := make([]timeCell, n)
	for i := range out {
		us := genInstant(rng, base, spread)
		if plan.gen == nil {
			// mixed textual layouts in one column
			textual := []int{11, 12, 13, 14, 15, 16}
			out[i] = plans[textual[rng.IntN(len(textual))]].gen(rng, us)
		} else {
			out[i] = plan.gen(rng, us)
		}
		if rng.IntN(25) == 0 {
			out[i].text = " " + out[i].text + " "
			out[i].kind += "+padded"
		}
	}
	return out, plan.format, plan.name
}

// ---- CSV rendering ----

func needsQuote(s string, delim rune) bool {
	if s == "" {
		return false
	}
	if strings.ContainsRune(s, delim) || strings.ContainsAny(s, "\"\r\n") {
		return true
	}
	return s[0] == ' ' || s[len(s)-1] == ' ' || s[0] == '\t' || s[len(s)-1] == '\t'
}

func csvField(rng *rand.Rand, s string, delim rune) string {
	if needsQuote(s, delim) || rng.IntN(12) == 0 {
		return `"` + strings.ReplaceAll(s, `"`, `""`) + `"`
	}
	return s
}

var colNameWords = []string{"value", "host", "region", "usage_idle", "Temp", "status", "n", "Load1", "flag", "note", "sensor-id", "col.with.dot", "mixed Case", "ünï", "x2", "database", "measurement"}

func genCSVCase(rng *rand.Rand, id int, nextRID *int64) *fileCase {
	fc := &fileCase{ID: id, Format: "csv", Expect: "accept"}
	delims := []rune{',', ',', ',', ';', '\t', '|', ' ', ':', '§'}
	delim := delims[rng.IntN(len(delims))]
	n := 1 + rng.IntN(40)
	switch rng.IntN(20) {
	case 0:
		n = 1
	case 1:
		n = 1001 + rng.IntN(400) // more rows than the ingest buffer holds
	}
	nExtra := rng.IntN(6)
	if n > 1000 {
		nExtra = rng.IntN(3)
	}

	tcells, tfmt, tplan := genTimeColumn(rng, n)
	fc.TimeFmt = tfmt
	fc.Features = append(fc.Features, "time="+tplan)

	timeName := "time"
	if rng.IntN(3) == 0 {
		timeName = []string{"ts", "Timestamp", "event time", "t", "date"}[rng.IntN(5)]
		fc.Params = append(fc.Params, [2]string{"time_column", timeName})
		fc.Features = append(fc.Features, "time_column renamed")
	}
	if tfmt != "" {
		fc.Params = append(fc.Params, [2]string{"time_format", tfmt})
	}
	if delim != ',' || rng.IntN(6) == 0 {
		fc.Params = append(fc.Params, [2]string{"delimiter", string(delim)})
		fc.Features = append(fc.Features, fmt.Sprintf("delimiter=%q", string(delim)))
	}

	type column struct {
		name  string
		cells []cell
		typ   string
		isT   bool
		isRID bool
	}
	cols := []column{{name: timeName, isT: true}, {name: "rid", isRID: true}}
	used := map[string]bool{timeName: true, "rid": true, "time": true}
	for k := 0; k < nExtra; k++ {
		name := colNameWords[rng.IntN(len(colNameWords))]
		for used[name] {
			name = fmt.Sprintf("%s_%d", colNameWords[rng.IntN(len(colNameWords))], rng.IntN(100))
		}
		used[name] = true
		cells, typ, note := genColumn(rng, n, delim)
		cols = append(cols, column{name: name, cells: cells, typ: typ})
		fc.Features = append(fc.Features, "column: "+note+" -> "+typ)
	}
	// a column whose name starts with an underscore (suspected to be dropped by storage)
	if rng.IntN(25) == 0 {
		name := []string{"_internal", "_x", "_database"}[rng.IntN(3)]
		cells, typ, _ := genColumn(rng, n, delim)
		cols = append(cols, column{name: name, cells: cells, typ: typ})
		fc.DropSuspectCols = append(fc.DropSuspectCols, name)
		fc.Features = append(fc.Features, "column name with leading underscore")
	}
	// ragged rows: only the columns after time and rid may be missing, so keep those two first
	ragged := nExtra > 0 && rng.IntN(6) == 0
	surplus := rng.IntN(30) == 0
	if !ragged && !surplus {
		rng.Shuffle(len(cols), func(i, j int) { cols[i], cols[j] = cols[j], cols[i] })
	}

	rids := make([]int64, n)
	for i := range rids {
		*nextRID++
		rids[i] = *nextRID
	}

	eol := "\n"
	if rng.IntN(3) == 0 {
		eol = "\r\n"
		fc.Features = append(fc.Features, "CRLF line ends")
	}
	var sb strings.Builder
	bom := rng.IntN(10) == 0
	if bom {
		sb.WriteString("\xef\xbb\xbf")
		fc.Features = append(fc.Features, "UTF-8 BOM")
	}
	skip := 0
	if rng.IntN(5) == 0 {
		skip = 1 + rng.IntN(3)
		for k := 0; k < skip; k++ {
			sb.WriteString([]string{"# exported by tool v1", "Report 2024" + string(delim) + "page 1", "units: ms" + string(delim) + string(delim) + "n/a"}[rng.IntN(3)])
			sb.WriteString(eol)
		}
		fc.Params = append(fc.Params, [2]string{"skip_rows", fmt.Sprintf("%d", skip)})
		fc.Features = append(fc.Features, fmt.Sprintf("skip_rows=%d", skip))
	}
	for ci, c := range cols {
		if ci > 0 {
			sb.WriteRune(delim)
		}
		f := csvField(rng, c.name, delim)
		if ci == 0 && bom && skip == 0 {
			if c.isRID {
				f = c.name // keep the rid column findable
			} else if !strings.HasPrefix(f, `"`) && rng.IntN(3) == 0 {
				f = `"` + strings.ReplaceAll(c.name, `"`, `""`) + `"`
			}
			if !c.isRID && strings.HasPrefix(f, `"`) {
				fc.BOMQuotedFirst = c.name
				fc.Features = append(fc.Features, "BOM directly before a quoted header name")
			}
		}
		sb.WriteString(f)
	}
	sb.WriteString(eol)

	raggedRows := 0
	for r := 0; r < n; r++ {
		ncell := len(cols)
		if ragged && rng.IntN(3) == 0 && len(cols) > 2 {
			ncell = 2 + rng.IntN(len(cols)-2) // drop some trailing cells
			raggedRows++
		}
		for ci := 0; ci < ncell; ci++ {
			if ci > 0 {
				sb.WriteRune(delim)
			}
			c := cols[ci]
			switch {
			case c.isT:
				sb.WriteString(csvField(rng, tcells[r].text, delim))
			case c.isRID:
				sb.WriteString(fmt.Sprintf("%d", rids[r]))
			default:
				sb.WriteString(csvField(rng, c.cells[r].text, delim))
			}
		}
		// missing trailing cells read as empty cells
		for ci := ncell; ci < len(cols); ci++ {
			cols[ci].cells[r] = emptyCell
		}
		if surplus && ncell == len(cols) && (r == n-1 || rng.IntN(4) == 0) {
			sb.WriteRune(delim)
			sb.WriteString("surplus-cell")
			fc.SurplusRows = append(fc.SurplusRows, rids[r])
		}
		if r < n-1 || rng.IntN(4) != 0 {
			sb.WriteString(eol)
		} else {
			fc.Features = append(fc.Features, "no final newline")
		}
	}
	if raggedRows > 0 {
		fc.Features = append(fc.Features, "rows with missing trailing cells")
		// types may change once cells became empty
		for ci := range cols {
			if !cols[ci].isT && !cols[ci].isRID {
				cols[ci].typ = inferType(cols[ci].cells)
			}
		}
	}
	if len(fc.SurplusRows) > 0 {
		fc.Features = append(fc.Features, "rows with a cell beyond the header")
	}
	fc.Body = []byte(sb.String())

	// truth
	for _, c := range cols {
		if c.isT {
			fc.RespCols = append(fc.RespCols, "time")
			continue
		}
		fc.RespCols = append(fc.RespCols, c.name)
		if c.isRID {
			continue
		}
		fc.Cols = append(fc.Cols, colTruth{Name: c.name, Type: c.typ})
	}
	fc.Rows = make([]rowTruth, n)
	for r := 0; r < n; r++ {
		rt := rowTruth{RID: rids[r], TimeUS: tcells[r].us, TimeKind: tcells[r].kind, TimeText: tcells[r].text, Pos: "middle"}
		switch {
		case n == 1:
			rt.Pos = "only"
		case r == 0:
			rt.Pos = "first"
		case r == n-1:
			rt.Pos = "last"
		}
		for _, c := range cols {
			if c.isT || c.isRID {
				continue
			}
			rt.Vals = append(rt.Vals, expectCell(c.cells[r], c.typ))
			rt.Kinds = append(rt.Kinds, c.cells[r].kind)
			t := c.cells[r].text
			if len(t) > 64 {
				t = t[:64] + "..."
			}
			rt.Texts = append(rt.Texts, t)
		}
		fc.Rows[r] = rt
	}

	// turn some files into files that cannot be imported completely
	if rng.IntN(7) == 0 && len(fc.SurplusRows) == 0 {
		breakCSV(rng, fc, delim, eol, timeName, skip)
	}
	return fc
}

// breakCSV rewrites the case into one that must be rejected (or may be).
func breakCSV(rng *rand.Rand, fc *fileCase, delim rune, eol, timeName string, skip int) {
	body := string(fc.Body)
	setParam := fc.setParam
	switch rng.IntN(8) {
	case 0: // an unparsable time value in a late row: append one more row whose time is junk
		junk := []string{"not-a-time", "2024-13-45 99:99:99", "12:34", "yesterday"}[rng.IntN(4)]
		if !strings.HasSuffix(body, eol) {
			body += eol
		}
		ncols := len(fc.RespCols)
		cells := make([]string, ncols)
		for i, c := range fc.RespCols {
			switch c {
			case "time":
				cells[i] = junk
				if needsQuote(junk, delim) {
					cells[i] = `"` + junk + `"`
				}
			case "rid":
				cells[i] = fmt.Sprintf("%d", fc.Rows[len(fc.Rows)-1].RID+500_000_000)
			}
		}
		fc.Body = []byte(body + strings.Join(cells, string(delim)) + eol)
		fc.Expect, fc.RejectWhy = "reject", "unparsable time value in the last row"
	case 1: // an empty time cell in the last row
		if !strings.HasSuffix(body, eol) {
			body += eol
		}
		cells := make([]string, len(fc.RespCols))
		for i, c := range fc.RespCols {
			if c == "rid" {
				cells[i] = fmt.Sprintf("%d", fc.Rows[len(fc.Rows)-1].RID+500_000_000)
			}
		}
		fc.Body = []byte(body + strings.Join(cells, string(delim)) + eol)
		fc.Expect, fc.RejectWhy = "reject", "empty time cell in the last row"
	case 2: // the named time column does not exist
		setParam("time_column", "no_such_column")
		fc.Expect, fc.RejectWhy = "reject", "time column not in the file"
	case 3: // unsupported time_format
		setParam("time_format", []string{"epoch_weeks", "rfc3339", "ms", "%Y-%m-%d"}[rng.IntN(4)])
		fc.Expect, fc.RejectWhy = "reject", "unsupported time_format"
	case 4: // a textual time under an explicit epoch format / epoch junk
		if fc.TimeFmt == "" {
			setParam("time_format", "epoch_s")
			textual := false
			for _, r := range fc.Rows {
				if t := strings.TrimSpace(r.TimeText); len(t) > 1 && strings.ContainsAny(t[1:], "-:T") { // a leading '-' is a sign
					textual = true
				}
			}
			if !textual {
				// numeric texts under epoch_s would be accepted with another meaning; leave the case valid
				setParamDel(fc, "time_format")
				return
			}
			fc.Expect, fc.RejectWhy = "reject", "textual time under an explicit epoch format"
		} else {
			return
		}
	case 5: // duplicate column name: repeat the rid column under the same name
		lines := strings.SplitN(body, eol, skip+2)
		if len(lines) < skip+2 || strings.ContainsAny(lines[skip], "\"") {
			return
		}
		lines[skip] = lines[skip] + string(delim) + "rid"
		fc.Body = []byte(strings.Join(lines, eol))
		fc.Expect, fc.RejectWhy = "reject", "duplicate column name"
	case 6: // skip_rows beyond the file
		setParam("skip_rows", "100000")
		fc.Expect, fc.RejectWhy = "reject", "skip_rows beyond the end of the file"
	default: // multi-character delimiter
		setParam("delimiter", "::")
		fc.Expect, fc.RejectWhy = "reject", "multi-character delimiter"
	}
	if fc.Expect != "accept" {
		fc.Features = append(fc.Features, "must be rejected: "+fc.RejectWhy)
	}
}

func (fc *fileCase) setParam(k, v string) {
	for i := range fc.Params {
		if fc.Params[i][0] == k {
			fc.Params[i][1] = v
			return
		}
	}
	fc.Params = append(fc.Params, [2]string{k, v})
}

func setParamDel(fc *fileCase, k string) {
	out := fc.Params[:0]
	for _, p := range fc.Params {
		if p[0] != k {
			out = append(out, p)
		}
	}
	fc.Params = out
}
