// Harness for the imports area: C31 (file imports store every data row).
package main

import (
	"flag"
	"fmt"
	"os"

	"github.com/basekick-labs/arc/internal/zzverif/vlib"
)

func main() {
	prop := flag.String("prop", "", "property id")
	flag.String("replay", "", "replay file")
	flag.Parse()
	switch *prop {
	case "C31":
		vlib.Main("C31", "exploration", checkC31)
	default:
		fmt.Println("unknown property", *prop)
		os.Exit(2)
	}
}
