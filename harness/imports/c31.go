package main

import (
	"bytes"
	"crypto/sha256"
	"encoding/json"
	"fmt"
	"math"
	"math/rand/v2"
	"mime/multipart"
	"net/url"
	"sort"
	"strings"
	"sync"

	"github.com/basekick-labs/arc/internal/zzverif/vfix"
	"github.com/basekick-labs/arc/internal/zzverif/vlib"
	"github.com/basekick-labs/arc/internal/zzverif/vpq"
)

// finding is one refuting observation, reported after the parallel phase in a
// deterministic order.
type finding struct {
	sig    string
	detail map[string]any
}

// outcome is what the import endpoint answered for one file.
type outcome struct {
	Status int    `json:"status"`
	Body   string `json:"body"`
}

type storedRow struct {
	rel   string
	db    string
	meas  string
	row   map[string]any
	types map[string]string
}

func checkC31(c *vlib.Ctx) {
	c.Rule("CSV files are generated structure-first: typed cells (integers incl. leading zeros/plus sign/-0/2^53+1/int64 extremes, floats incl. exponent/hex/NaN/Inf/denormal/integers beyond int64, bool words and 0/1, strings incl. embedded delimiter/quote/newline, look-alikes such as `T`, `1_000`, ` 5`, empty cells), column plans (homogeneous, numeric-then-string, all-empty, mixed), 9 delimiters, RFC 4180 quoting plus random extra quoting, CRLF/LF, BOM, skipped leading rows, renamed time column, ragged rows; time column in epoch s/ms/us/ns (integer and fractional), auto-detected epochs inside the documented magnitude bands, and the six documented textual layouts (single or mixed). Parquet files are written with arrow-go's pqarrow from typed values: int8..int64, uint8..uint64, float32/64, string/large_string/binary/fixed_size_binary, bool, decimal128, timestamp[s|ms|us|ns] as ordinary columns, nulls, several row groups, stored arrow schema; time column as timestamp of every unit (with/without zone), int64/int32/uint64/uint32/float64/float32/string/binary/fixed_size_binary. About one file in seven cannot be imported completely (unparsable/empty/null time in a late row, missing or ill-typed time column, duplicate column, unsupported time_format, unsupported column type). Every row carries a unique rid; every file goes to its own measurement through the real multipart endpoints. non-trivial = distinct accepted files whose stored rows were compared")
	c.Assume("expected column type of a CSV column = the importer's documented inference order (int64, float64, bool, string; empty cell = null, or \"\" in string columns; all-empty column = string) applied to the generator's own cell flags; within that type the stored value must equal the generator's typed value (integers exactly, floats as the correctly rounded float64 of the cell text, zero sign ignored, NaN = NaN)")
	c.Assume("sub-microsecond digits of nanosecond inputs are dropped; pre-1970 nanosecond inputs are generated on whole microseconds only; auto-detected epochs are generated only inside the documented magnitude bands; CR or CRLF inside quoted CSV cells, blank lines and unbalanced quotes are not generated (encoding/csv normalises or skips them)")
	c.Assume("decimal128 columns are documented as converted to float64: the nearest float64 of the decimal value, a relative error of 1e-15 (float64 precision) tolerated")
	c.Assume("storage is read back with arrow-go's Parquet reader (vpq), independent of arc's writer and of DuckDB; local backend only")
	if c.Replay != "" {
		replayC31(c)
		return
	}
	nodes := 16
	perNode := c.N(200, 2500)
	res := make([][]finding, nodes)
	var wg sync.WaitGroup
	for ni := 0; ni < nodes; ni++ {
		wg.Add(1)
		go func(ni int) {
			defer wg.Done()
			rng := c.Rand(fmt.Sprintf("node-%d", ni))
			res[ni] = runNode(c, ni, rng, perNode, nil)
		}(ni)
	}
	wg.Wait()
	for _, fs := range res {
		for _, f := range fs {
			c.Violation(f.sig, f.detail)
		}
	}
	c.Floor(c.N(1500, 15000))
}

func replayC31(c *vlib.Ctx) {
	var d struct {
		Case *fileCase `json:"case"`
	}
	if err := vlib.LoadReplay(c.Replay, &d); err != nil || d.Case == nil {
		panic(fmt.Sprintf("replay file has no case: %v", err))
	}
	fs := runNode(c, 0, rand.New(rand.NewPCG(1, 2)), 0, []*fileCase{d.Case})
	c.Nontrivial("replay-a")
	c.Nontrivial("replay-b")
	for _, f := range fs {
		c.Violation(f.sig, f.detail)
	}
	fmt.Printf("replayed case %d (%s): %d finding(s)\n", d.Case.ID, d.Case.Format, len(fs))
}

func multipartBody(fc *fileCase, rng *rand.Rand) ([]byte, string) {
	var buf bytes.Buffer
	mw := multipart.NewWriter(&buf)
	// decoy form fields that must not influence routing
	if rng.IntN(4) == 0 {
		_ = mw.WriteField("measurement", "decoy_measurement")
		_ = mw.WriteField("database", "decoydb")
	}
	name := "data.csv"
	if fc.Format == "parquet" {
		name = "data.parquet"
	}
	fw, err := mw.CreateFormFile("file", name)
	if err != nil {
		panic(err)
	}
	fw.Write(fc.Body)
	mw.Close()
	return buf.Bytes(), mw.FormDataContentType()
}

func send(n *vfix.Node, fc *fileCase, rng *rand.Rand) outcome {
	q := url.Values{}
	q.Set("measurement", fc.Meas)
	for _, p := range fc.Params {
		q.Set(p[0], p[1])
	}
	hdr := map[string]string{}
	other := "otherdb"
	switch rng.IntN(4) {
	case 0:
		hdr["x-arc-database"] = fc.DB
	case 1:
		q.Set("db", fc.DB)
	case 2: // both, agreeing
		hdr["x-arc-database"] = fc.DB
		q.Set("db", fc.DB)
	default: // both, conflicting: the header is documented to win
		hdr["x-arc-database"] = fc.DB
		q.Set("db", other)
	}
	body, ct := multipartBody(fc, rng)
	hdr["Content-Type"] = ct
	code, resp, _ := n.Do("POST", "/api/v1/import/"+fc.Format+"?"+q.Encode(), hdr, body)
	s := string(resp)
	if len(s) > 600 {
		s = s[:600]
	}
	return outcome{Status: code, Body: s}
}

// runNode imports perNode generated files (or the given cases) into one in-process
// node, waits for the flushes, reads the storage back and evaluates every file.
func runNode(c *vlib.Ctx, ni int, rng *rand.Rand, perNode int, given []*fileCase) []finding {
	n, err := vfix.NewNode(vfix.Options{WithImport: true})
	if err != nil {
		panic(err)
	}
	defer n.Close()
	nextRID := int64(ni+1) * 100_000_000
	var cases []*fileCase
	var outs []outcome
	total := perNode
	if given != nil {
		total = len(given)
	}
	for k := 0; k < total; k++ {
		var fc *fileCase
		if given != nil {
			fc = given[k]
		} else {
			if rng.IntN(5) < 3 {
				fc = genCSVCase(rng, ni*1_000_000+k, &nextRID)
			} else {
				fc = genParquetCase(rng, ni*1_000_000+k, &nextRID)
			}
			fc.DB = []string{"dba", "dbb", "Metrics-1"}[rng.IntN(3)]
			fc.Meas = fmt.Sprintf("imp_n%d_f%d", ni, k)
		}
		out := send(n, fc, rng)
		if ni == 0 && k < 6 {
			head := string(fc.Body)
			if fc.Format == "parquet" {
				head = fmt.Sprintf("<%d bytes of Parquet>", len(fc.Body))
			} else if len(head) > 300 {
				head = head[:300] + "..."
			}
			c.Sample(map[string]any{"format": fc.Format, "params": fc.Params, "features": fc.Features, "expect": fc.Expect, "rows": len(fc.Rows), "file_head": head, "status": out.Status})
		}
		cases = append(cases, fc)
		outs = append(outs, out)
		c.Eval()
		c.Count("files_"+fc.Format, 1)
	}
	buffered, _ := n.Buffer.GetStats()["total_records_buffered"].(int64)
	if !n.Quiesce(buffered) {
		c.Inconclusive(fmt.Sprintf("node %d: flush queue did not drain within the watchdog; storage comparison skipped", ni))
		return nil
	}
	files, err := vpq.ReadTree(n.Root)
	if err != nil {
		return []finding{{"stored Parquet file unreadable", map[string]any{"err": err.Error()}}}
	}
	byRID := map[int64][]storedRow{}
	byMeas := map[string][]string{}
	noRID := map[string][]map[string]any{}
	var fs []finding
	for _, f := range files {
		parts := strings.Split(f.Rel, "/")
		c.Count("parquet_files_read", 1)
		if len(parts) < 3 {
			fs = append(fs, finding{"stored file outside <db>/<measurement>/", map[string]any{"file": f.Rel}})
			continue
		}
		byMeas[parts[1]] = append(byMeas[parts[1]], f.Rel)
		for _, row := range f.Rows {
			r, ok := row["rid"].(int64)
			if !ok {
				noRID[parts[1]] = append(noRID[parts[1]], map[string]any{"file": f.Rel, "row": fmt.Sprint(row), "types": f.Types})
				continue
			}
			byRID[r] = append(byRID[r], storedRow{f.Rel, parts[0], parts[1], row, f.Types})
		}
	}
	for k, fc := range cases {
		efs := evaluate(c, fc, outs[k], byRID, byMeas)
		if bad := noRID[fc.Meas]; len(bad) > 0 {
			efs = append(efs, finding{fc.Format + ": stored row without an integer rid", caseDetail(fc, outs[k], map[string]any{"rows": bad[:min(3, len(bad))]})})
		}
		delete(noRID, fc.Meas)
		if fc.BOMQuotedFirst != "" && len(efs) > 0 {
			// one root cause: the BOM is removed only after the CSV header was split, so the
			// quote that follows it is not recognised as a quote
			var under []string
			for _, f := range efs {
				under = append(under, f.sig)
			}
			efs = []finding{{"csv: UTF-8 BOM directly before a quoted first header name: the quotes are not recognised (name keeps its quote characters, or the header is mis-split)",
				caseDetail(fc, outs[k], map[string]any{"observed": under})}}
		}
		fs = append(fs, efs...)
	}
	for m, bad := range noRID {
		fs = append(fs, finding{"stored row without an integer rid under a measurement no file was sent to", map[string]any{"measurement": m, "rows": bad[:min(3, len(bad))]}})
	}
	return fs
}

func caseDetail(fc *fileCase, out outcome, extra map[string]any) map[string]any {
	d := map[string]any{"case": fc, "status": out.Status, "response": out.Body, "features": fc.Features}
	if fc.Format == "csv" && len(fc.Body) < 4000 {
		d["csv_text"] = string(fc.Body)
	}
	for k, v := range extra {
		d[k] = v
	}
	return d
}

func stripPad(k string) string { return strings.TrimSuffix(k, "+padded") }

func evaluate(c *vlib.Ctx, fc *fileCase, out outcome, byRID map[int64][]storedRow, byMeas map[string][]string) []finding {
	var fs []finding
	add := func(sig string, extra map[string]any) {
		sig = fc.Format + ": " + sig
		for _, f := range fs {
			if f.sig == sig {
				return
			}
		}
		fs = append(fs, finding{sig, caseDetail(fc, out, extra)})
	}
	accepted := out.Status >= 200 && out.Status < 300
	if !accepted {
		c.Count("files_rejected", 1)
		left := 0
		for _, r := range fc.Rows {
			left += len(byRID[r.RID])
		}
		if left > 0 || len(byMeas[fc.Meas]) > 0 {
			why := fc.RejectWhy
			if why == "" {
				why = "a file the generator considers valid"
			}
			add(fmt.Sprintf("rejected import left rows behind [%s]", why), map[string]any{"rows_left": left, "files_left": byMeas[fc.Meas]})
		}
		if fc.Expect == "accept" {
			c.Count("valid_files_rejected", 1)
			c.Sample(map[string]any{"valid_file_rejected": out.Body, "status": out.Status, "features": fc.Features})
		} else {
			c.Count("files_rejected_as_expected", 1)
			c.Nontrivial("rej:" + bodyKey(fc))
		}
		return fs
	}
	c.Count("files_accepted", 1)
	if fc.Expect == "reject" {
		if fc.RejectWhy == "unsupported time_format" {
			add("import with an unsupported time_format accepted (times converted by guessing the unit, not as requested)", nil)
			return fs
		}
		add(fmt.Sprintf("a file that cannot be imported completely was accepted [%s]", fc.RejectWhy), nil)
		return fs
	}
	c.Nontrivial("acc:" + bodyKey(fc))

	// response
	var resp struct {
		Result struct {
			Database          string   `json:"database"`
			Measurement       string   `json:"measurement"`
			RowsImported      int64    `json:"rows_imported"`
			PartitionsCreated int      `json:"partitions_created"`
			Columns           []string `json:"columns"`
		} `json:"result"`
	}
	if err := json.Unmarshal([]byte(out.Body), &resp); err != nil {
		add("accepted import without a decodable result", nil)
	} else {
		if resp.Result.RowsImported != int64(len(fc.Rows)) {
			add("response rows_imported differs from the file's data rows", map[string]any{"reported": resp.Result.RowsImported, "data_rows": len(fc.Rows)})
		}
		if resp.Result.Database != fc.DB || resp.Result.Measurement != fc.Meas {
			add("response names another database/measurement", map[string]any{"reported_db": resp.Result.Database, "reported_m": resp.Result.Measurement})
		}
		hours := map[string]bool{}
		for _, r := range fc.Rows {
			hours[vpq.HourPath(r.TimeUS)] = true
		}
		if resp.Result.PartitionsCreated != len(hours) {
			// only meaningful when the times were converted as expected; reported with the time findings below
			c.Count("responses_with_other_partition_count", 1)
		}
		if fc.RespCols != nil && strings.Join(resp.Result.Columns, "\x00") != strings.Join(fc.RespCols, "\x00") {
			add("response column list differs from the file's header", map[string]any{"reported": resp.Result.Columns, "want": fc.RespCols})
		}
	}
	if len(fc.SurplusRows) > 0 {
		add("row with more cells than the header accepted; the surplus cell is not stored", map[string]any{"rows_with_surplus_cell": len(fc.SurplusRows)})
	}
	suspect := map[string]bool{}
	for _, s := range fc.DropSuspectCols {
		suspect[s] = true
	}

	for _, rt := range fc.Rows {
		got := byRID[rt.RID]
		c.Count("rows_checked", 1)
		if len(got) != 1 {
			if len(got) == 0 {
				add(fmt.Sprintf("accepted data row not stored [position=%s]", rt.Pos), map[string]any{"rid": rt.RID, "rows_in_file": len(fc.Rows)})
			} else {
				add("accepted data row stored more than once", map[string]any{"rid": rt.RID, "copies": len(got)})
			}
			continue
		}
		sr := got[0]
		if sr.db != fc.DB || sr.meas != fc.Meas {
			add("row stored under another database/measurement", map[string]any{"rid": rt.RID, "file": sr.rel})
		}
		// time
		if t, ok := sr.row["time"].(int64); !ok || !strings.HasPrefix(sr.types["time"], "timestamp[us") {
			add("stored time column is not a microsecond timestamp", map[string]any{"rid": rt.RID, "type": sr.types["time"], "value": fmt.Sprint(sr.row["time"])})
		} else if t != rt.TimeUS {
			add(fmt.Sprintf("stored time differs from the requested conversion [time_format=%q, cell %s]", fc.TimeFmt, stripPad(rt.TimeKind)),
				map[string]any{"rid": rt.RID, "time_text": rt.TimeText, "want_us": rt.TimeUS, "got_us": t, "diff_us": t - rt.TimeUS})
		}
		c.Count("time:"+stripPad(rt.TimeKind), 1)
		// other columns
		want := map[string]bool{"time": true, "rid": true}
		for ci, col := range fc.Cols {
			want[col.Name] = true
			c.Count("cells_checked", 1)
			kind := rt.Kinds[ci]
			c.Count("cell:"+kind, 1)
			gv, present := sr.row[col.Name]
			if !present && col.Name == fc.BOMQuotedFirst {
				want[`"`+col.Name+`"`] = true
				add("first header name keeps its quote characters", map[string]any{"column": col.Name, "stored_columns": keys(sr.row)})
				continue
			}
			if !present {
				class := "ordinary name"
				if suspect[col.Name] {
					class = "name with leading underscore"
				}
				add(fmt.Sprintf("column of the file is not stored [%s]", class), map[string]any{"column": col.Name, "stored_columns": keys(sr.row)})
				continue
			}
			if diff := compareValue(rt.Vals[ci], gv, kind); diff != "" {
				text := ""
				if ci < len(rt.Texts) {
					text = rt.Texts[ci]
				}
				add(fmt.Sprintf("stored value differs [expected column type %s, cell %s]", col.Type, kind),
					map[string]any{"rid": rt.RID, "column": col.Name, "cell_text": text, "want": rt.Vals[ci].String(), "got": fmt.Sprintf("%T(%v)", gv, gv), "stored_type": sr.types[col.Name], "why": diff, "column_note": col.Note})
			}
		}
		for k, v := range sr.row {
			if !want[k] && v != nil {
				add("stored row has a value in a column the file does not have", map[string]any{"rid": rt.RID, "column": k})
			}
		}
	}
	return fs
}

func keys(m map[string]any) []string {
	out := make([]string, 0, len(m))
	for k := range m {
		out = append(out, k)
	}
	sort.Strings(out)
	return out
}

func bodyKey(fc *fileCase) string {
	h := sha256.Sum256(fc.Body)
	return fmt.Sprintf("%s/%x/%v", fc.Format, h[:12], fc.Params)
}

// compareValue returns "" when the stored value equals the expected one.
func compareValue(w tv, got any, kind string) string {
	switch w.K {
	case "null":
		if got != nil {
			return "expected null"
		}
	case "int":
		g, ok := got.(int64)
		if !ok {
			return "not stored as a 64-bit integer"
		}
		if g != w.I {
			return "integer differs"
		}
	case "float":
		g, ok := got.(float64)
		if !ok {
			return "not stored as float64"
		}
		f := math.Float64frombits(w.F)
		if math.IsNaN(f) {
			if !math.IsNaN(g) {
				return "expected NaN"
			}
			return ""
		}
		if g == f {
			return ""
		}
		if strings.HasPrefix(kind, "decimal128") && math.Abs(g-f) <= math.Abs(f)*1e-15 {
			return "" // documented approximate conversion: float64 precision
		}
		return "float differs"
	case "bool":
		g, ok := got.(bool)
		if !ok {
			return "not stored as bool"
		}
		if g != w.B {
			return "bool differs"
		}
	case "str":
		switch g := got.(type) {
		case string:
			if g != string(w.S) {
				return "string differs"
			}
		case []byte:
			if !bytes.Equal(g, w.S) {
				return "bytes differ"
			}
		default:
			return "not stored as string"
		}
	default:
		return "the value has no lossless representation in the stored type, yet the file was accepted"
	}
	return ""
}
