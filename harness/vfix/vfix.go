// Package vfix builds an in-process arc "node" out of the REAL packages, wired the
// way cmd/arc/main.go wires them (local storage backend, DuckDB with the production
// sandbox, Arrow ingest buffer, Fiber app with the write / query / delete / import
// handlers), plus a private reference DuckDB ("refduck") owned by the harness.
// Requires -tags duckdb_arrow.
package vfix

import (
	"bytes"
	"context"
	"database/sql"
	"encoding/json"
	"fmt"
	"io"
	"net/http/httptest"
	"os"
	"path/filepath"
	"sort"
	"strings"
	"time"

	_ "github.com/duckdb/duckdb-go/v2"
	"github.com/gofiber/fiber/v2"
	"github.com/rs/zerolog"

	"github.com/basekick-labs/arc/internal/api"
	"github.com/basekick-labs/arc/internal/auth"
	"github.com/basekick-labs/arc/internal/config"
	"github.com/basekick-labs/arc/internal/database"
	"github.com/basekick-labs/arc/internal/ingest"
	"github.com/basekick-labs/arc/internal/storage"
	"github.com/basekick-labs/arc/internal/zzverif/vlib"
)

// Options selects what the node contains.
type Options struct {
	Ingest      *config.IngestConfig // nil = defaults suited to tests (small buffers)
	WithQuery   bool                 // DuckDB + QueryHandler (+ delete handler)
	WithImport  bool
	Logger      *zerolog.Logger
	RBAC        api.RBACChecker   // optional recording checker for the handlers
	AuthManager *auth.AuthManager // optional
	DeleteCfg   *config.DeleteConfig
	QueryTimeoutSec int
}

// Node is one in-process arc instance.
type Node struct {
	Dir       string // scratch dir (removed by Close)
	Root      string // storage root (Dir/data)
	Backend   *storage.LocalBackend
	Buffer    *ingest.ArrowBuffer
	DB        *database.DuckDB
	App       *fiber.App
	Query     *api.QueryHandler
	Delete    *api.DeleteHandler
	LP        *api.LineProtocolHandler
	MsgPack   *api.MsgPackHandler
	Import    *api.ImportHandler
	IngestCfg *config.IngestConfig
	accepted  int64
}

// DefaultIngest returns a small-buffer ingest configuration.
func DefaultIngest() *config.IngestConfig {
	return &config.IngestConfig{
		MaxBufferSize: 1000, MaxBufferAgeMS: 1000, Compression: "snappy", WriteStatistics: true,
		DataPageVersion: "2.0", FlushWorkers: 4, FlushQueueSize: 1000, ShardCount: 4,
	}
}

// NewNode builds a node in a fresh scratch directory.
func NewNode(o Options) (*Node, error) {
	dir := vlib.TempDir("node")
	n := &Node{Dir: dir, Root: filepath.Join(dir, "data")}
	lg := zerolog.Nop()
	if o.Logger != nil {
		lg = *o.Logger
	}
	be, err := storage.NewLocalBackend(n.Root, lg)
	if err != nil {
		return nil, err
	}
	n.Backend = be
	n.IngestCfg = o.Ingest
	if n.IngestCfg == nil {
		n.IngestCfg = DefaultIngest()
	}
	n.Buffer = ingest.NewArrowBuffer(n.IngestCfg, be, lg)
	n.App = fiber.New(fiber.Config{BodyLimit: 256 << 20, DisableStartupMessage: true})
	n.LP = api.NewLineProtocolHandler(n.Buffer, lg)
	n.MsgPack = api.NewMsgPackHandler(lg, n.Buffer, 256<<20)
	if o.RBAC != nil || o.AuthManager != nil {
		n.LP.SetAuthAndRBAC(o.AuthManager, o.RBAC)
		n.MsgPack.SetAuthAndRBAC(o.AuthManager, o.RBAC)
	}
	n.LP.RegisterRoutes(n.App)
	n.MsgPack.RegisterRoutes(n.App)
	if o.WithImport {
		n.Import = api.NewImportHandler(lg)
		n.Import.SetArrowBuffer(n.Buffer)
		if o.RBAC != nil || o.AuthManager != nil {
			n.Import.SetAuthAndRBAC(o.AuthManager, o.RBAC)
		}
		n.Import.RegisterRoutes(n.App)
	}
	if o.WithQuery {
		tmp := filepath.Join(dir, "duckdb-tmp")
		upl := filepath.Join(tmp, "uploads")
		if err := os.MkdirAll(upl, 0o700); err != nil {
			return nil, err
		}
		absRoot, _ := filepath.Abs(n.Root)
		db, err := database.New(&database.Config{
			MaxConnections: 4, MemoryLimit: "1GB", ThreadCount: 2, TempDirectory: tmp,
			LocalStorageRoot: absRoot, UploadDir: filepath.ToSlash(upl), PreserveInsertionOrder: true,
		}, lg)
		if err != nil {
			return nil, fmt.Errorf("database.New: %w", err)
		}
		n.DB = db
		if o.WithQuery {
			n.Query = api.NewQueryHandler(db, be, lg, o.QueryTimeoutSec, 0)
			if o.RBAC != nil || o.AuthManager != nil {
				n.Query.SetAuthAndRBAC(o.AuthManager, o.RBAC)
			}
			n.Query.RegisterRoutes(n.App)
			dc := o.DeleteCfg
			if dc == nil {
				dc = &config.DeleteConfig{Enabled: true, ConfirmationThreshold: 1000000000, MaxRowsPerDelete: 1000000000}
			}
			n.Delete = api.NewDeleteHandler(db, be, dc, o.AuthManager, filepath.ToSlash(upl), lg)
			n.Delete.RegisterRoutes(n.App)
		}
	}
	return n, nil
}

// Do sends one request through the Fiber app (no sockets).
func (n *Node) Do(method, url string, hdr map[string]string, body []byte) (int, []byte, map[string][]string) {
	req := httptest.NewRequest(method, url, bytes.NewReader(body))
	for k, v := range hdr {
		req.Header.Set(k, v)
	}
	resp, err := n.App.Test(req, 120000)
	if err != nil {
		return -1, []byte(err.Error()), nil
	}
	b, _ := io.ReadAll(resp.Body)
	return resp.StatusCode, b, resp.Header
}

// Quiesce flushes every buffer and waits (bounded) until `rows` accepted rows have
// been written and the flush queue is empty. It returns false when the watchdog
// fired (callers must treat that as inconclusive, never as a violation).
// ArrowBuffer.Close() abandons queued flush tasks by design, hence this wait.
func (n *Node) Quiesce(rows int64) bool {
	_ = n.Buffer.FlushAll(context.Background())
	for w := 0; w < 6000; w++ {
		st := n.Buffer.GetStats()
		if st["total_records_written"].(int64) >= rows && st["flush_queue_depth"].(int64) == 0 {
			return true
		}
		time.Sleep(5 * time.Millisecond)
	}
	return false
}

// Close shuts the node down and removes its scratch directory.
func (n *Node) Close() {
	if n.Buffer != nil {
		n.Buffer.Close()
	}
	if n.DB != nil {
		n.DB.Close()
	}
	os.RemoveAll(n.Dir)
}

// QueryResult is a decoded JSON query response.
type QueryResult struct {
	Status  int
	Success bool
	Error   string
	Columns []string
	Rows    [][]any // json.Number for numbers
	Raw     []byte
}

// QueryJSON posts SQL to /api/v1/query (hdr may carry x-arc-database, Authorization).
func (n *Node) QueryJSON(sqlText string, hdr map[string]string) QueryResult {
	body, _ := json.Marshal(map[string]string{"sql": sqlText})
	h := map[string]string{"Content-Type": "application/json"}
	for k, v := range hdr {
		h[k] = v
	}
	code, b, _ := n.Do("POST", "/api/v1/query", h, body)
	out := QueryResult{Status: code, Raw: b}
	var r struct {
		Success bool     `json:"success"`
		Columns []string `json:"columns"`
		Data    [][]any  `json:"data"`
		Error   string   `json:"error"`
	}
	dec := json.NewDecoder(bytes.NewReader(b))
	dec.UseNumber()
	if err := dec.Decode(&r); err != nil {
		out.Error = "undecodable response: " + err.Error()
		return out
	}
	out.Success, out.Columns, out.Rows, out.Error = r.Success, r.Columns, r.Data, r.Error
	return out
}

// ---------- reference DuckDB ----------

// Ref is a private in-memory DuckDB owned by the harness (independent engine
// instance: no arc code between the SQL text and DuckDB).
type Ref struct{ DB *sql.DB }

// NewRef opens the reference engine.
func NewRef() (*Ref, error) {
	db, err := sql.Open("duckdb", "")
	if err != nil {
		return nil, err
	}
	db.SetMaxOpenConns(1)
	if _, err := db.Exec("SET threads=2"); err != nil {
		return nil, err
	}
	return &Ref{DB: db}, nil
}

// Close closes the engine.
func (r *Ref) Close() { r.DB.Close() }

// ParquetFiles lists the parquet files (absolute paths) of root/db/measurement.
func ParquetFiles(root, db, measurement string) []string {
	var out []string
	filepath.Walk(filepath.Join(root, db, measurement), func(p string, info os.FileInfo, err error) error {
		if err == nil && !info.IsDir() && strings.HasSuffix(p, ".parquet") {
			out = append(out, p)
		}
		return nil
	})
	sort.Strings(out)
	return out
}

// DefineViews creates schema <db> and view <db>.<measurement> := read_parquet(all
// files of the measurement, union_by_name) for every database/measurement directory
// under root; measurements of defaultDB are additionally visible unqualified
// (main schema). Returns the (db, measurement) pairs defined.
func (r *Ref) DefineViews(root, defaultDB string) ([][2]string, error) {
	var pairs [][2]string
	dbs, _ := os.ReadDir(root)
	for _, d := range dbs {
		if !d.IsDir() {
			continue
		}
		ms, _ := os.ReadDir(filepath.Join(root, d.Name()))
		for _, m := range ms {
			if !m.IsDir() {
				continue
			}
			files := ParquetFiles(root, d.Name(), m.Name())
			if len(files) == 0 {
				continue
			}
			qf := make([]string, len(files))
			for i, f := range files {
				qf[i] = "'" + strings.ReplaceAll(f, "'", "''") + "'"
			}
			src := "read_parquet([" + strings.Join(qf, ",") + "], union_by_name=true)"
			if _, err := r.DB.Exec(fmt.Sprintf(`CREATE SCHEMA IF NOT EXISTS "%s"`, d.Name())); err != nil {
				return nil, err
			}
			if _, err := r.DB.Exec(fmt.Sprintf(`CREATE OR REPLACE VIEW "%s"."%s" AS SELECT * FROM %s`, d.Name(), m.Name(), src)); err != nil {
				return nil, err
			}
			if d.Name() == defaultDB {
				if _, err := r.DB.Exec(fmt.Sprintf(`CREATE OR REPLACE VIEW main."%s" AS SELECT * FROM %s`, m.Name(), src)); err != nil {
					return nil, err
				}
			}
			pairs = append(pairs, [2]string{d.Name(), m.Name()})
		}
	}
	return pairs, nil
}

// Rows runs a query on the reference engine and returns columns and rows with values
// rendered canonically by Canon.
func (r *Ref) Rows(q string) ([]string, [][]string, error) {
	rows, err := r.DB.Query(q)
	if err != nil {
		return nil, nil, err
	}
	defer rows.Close()
	cols, _ := rows.Columns()
	var out [][]string
	for rows.Next() {
		vals := make([]any, len(cols))
		ptrs := make([]any, len(cols))
		for i := range vals {
			ptrs[i] = &vals[i]
		}
		if err := rows.Scan(ptrs...); err != nil {
			return cols, out, err
		}
		row := make([]string, len(cols))
		for i, v := range vals {
			row[i] = Canon(v)
		}
		out = append(out, row)
	}
	return cols, out, rows.Err()
}

// Canon renders a scanned/decoded value canonically so that values from the reference
// engine (database/sql scans) and from arc's JSON responses (json.Number, string,
// bool, nil) can be compared: numbers by shortest float64/int form, times as UTC
// microseconds "T<us>", nil as "NULL".
func Canon(v any) string {
	switch t := v.(type) {
	case nil:
		return "NULL"
	case bool:
		if t {
			return "true"
		}
		return "false"
	case int64:
		return fmt.Sprintf("%d", t)
	case int32:
		return fmt.Sprintf("%d", t)
	case int16:
		return fmt.Sprintf("%d", t)
	case int8:
		return fmt.Sprintf("%d", t)
	case int:
		return fmt.Sprintf("%d", t)
	case uint64:
		return fmt.Sprintf("%d", t)
	case uint32:
		return fmt.Sprintf("%d", t)
	case uint16:
		return fmt.Sprintf("%d", t)
	case uint8:
		return fmt.Sprintf("%d", t)
	case float64:
		return canonFloat(t)
	case float32:
		return canonFloat(float64(t))
	case json.Number:
		s := t.String()
		if !strings.ContainsAny(s, ".eE") {
			return s
		}
		f, err := t.Float64()
		if err != nil {
			return s
		}
		return canonFloat(f)
	case string:
		return "S:" + t
	case []byte:
		return "S:" + string(t)
	case time.Time:
		return fmt.Sprintf("T%d", t.UTC().UnixMicro())
	}
	return fmt.Sprintf("%v", v)
}

func canonFloat(f float64) string {
	if f == float64(int64(f)) && f > -1e15 && f < 1e15 {
		return fmt.Sprintf("%d", int64(f))
	}
	return fmt.Sprintf("%g", f)
}
