#!/bin/bash
# usage: tools/seedrun.sh <patch.diff> <check id>...  -- apply to /repo, run the quick checks, undo
patch="$1"; shift
git -C /repo diff --quiet || { echo "/repo not clean"; exit 9; }
git -C /repo apply "$patch" || exit 8
for id in "$@"; do
  out=$(cd /verif && ./check $id quick 2>&1); rc=$?
  echo "$id rc=$rc $(echo "$out" | grep -E '^SUMMARY' | cut -c1-160)"
  echo "$out" | grep -E "signature:|BROKEN|BUILD-FAILED" | head -6 | sed 's/^/    /'
done
git -C /repo checkout -- .
(cd /verif && git checkout -- evidence replays 2>/dev/null; git clean -fdq replays)
git -C /repo status --short | head -3
