#!/usr/bin/env python3
"""Regenerates /verif/MANIFEST.json from tools/manifest_base.json + harness/*/area.json."""
import json, os
R = os.path.dirname(os.path.dirname(os.path.abspath(__file__)))
src = json.load(open(os.path.join(R, "tools/manifest_base.json")))
src["checks"] = {}
for a in sorted(os.listdir(os.path.join(R, "harness"))):
    fp = os.path.join(R, "harness", a, "area.json")
    if os.path.exists(fp):
        frag = json.load(open(fp))
        if not frag.get("enabled"):
            continue  # registered by the lead only after the check was reviewed and is silent on the unchanged tree
        for pid, c in frag.get("checks", {}).items():
            m = dict(c["manifest"]); m["area"] = a
            src["checks"][pid] = m
props = [json.loads(l)["id"] for l in open(os.path.join(R, "properties.jsonl")) if l.strip()]
checks = []
for pid in props:
    c = src["checks"].get(pid)
    if not c:
        continue
    checks.append({
        "property_id": pid,
        "quick_cmd": "./check %s quick" % pid,
        "thorough_cmd": "./check %s thorough" % pid,
        "evidence_file": "/verif/evidence/%s.json" % pid,
        "replay_cmd_template": "./check %s --replay {path}" % pid,
        "engine": c.get("engine", "harness/" + c["area"]),
        "level_claimed": {"category": c["level"], "text": c["text"], "design_ref": "DESIGN.md section 3 " + pid},
        "level_note": c["note"],
        "technique": c["technique"],
    })
na = [{"property_id": p, "reason": src["not_applicable"].get(p, "no check registered yet: harness not built in the time used so far (see DESIGN.md section 3 for the planned monitor)")}
      for p in props if p not in src["checks"]]
m = {
    "version": 1,
    "setup_cmd": "./check --build-all",
    "hooks": src["hooks"],
    "engines": src.get("engines", []),
    "checks": checks,
    "not_applicable": na,
    "notes": src.get("notes", ""),
}
json.dump(m, open(os.path.join(R, "MANIFEST.json"), "w"), indent=1)
print("checks:", len(checks), "not_applicable:", len(na))
