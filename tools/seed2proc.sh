#!/bin/bash
# usage: tools/seed2proc.sh <ID> <pkgdir> <test regex> [tags] -- confirm a round-2 delivery, keep it, run the check
id="$1"; pkg="$2"; rx="$3"; tags="${4:-}"
src=/tmp/seed2-out/$id
[ -f $src/patch.diff ] && [ -f $src/demo_test.go ] && [ -f $src/meta.json ] || { echo "incomplete delivery $src"; ls $src; exit 7; }
/verif/tools/seedconfirm.sh $src $pkg seed2_${id}_demo_test.go "$rx" $tags 2>&1 | tail -14
mkdir -p /verif/seeded/$id-r2 && cp $src/patch.diff $src/demo_test.go $src/meta.json /verif/seeded/$id-r2/
/verif/tools/seedrun.sh /verif/seeded/$id-r2/patch.diff $id
