#!/bin/bash
# usage: tools/sweep.sh "<seeds>" [tier] [ids...]   -- runs checks sequentially, prints one line per run
cd "$(dirname "$0")/.."
export VERIF_ROOT="$PWD"
seeds="$1"; tier="${2:-quick}"; shift 2
ids="$@"
[ -z "$ids" ] && ids=$(python3 -c "import json;print(' '.join(c['property_id'] for c in json.load(open('MANIFEST.json'))['checks']))")
for id in $ids; do for s in $seeds; do
  out=$(VERIF_SEED=$s ./check $id $tier 2>&1); rc=$?
  echo "$id seed=$s rc=$rc $(echo "$out" | grep -E '^SUMMARY' | sed 's/SUMMARY property=[A-Z0-9]* //')"
  echo "$out" | grep -E "^VIOLATION|signature:|BROKEN|BUILD-FAILED|HARNESS-PANIC" | sed 's/^/    /'
done; done
