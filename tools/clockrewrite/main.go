// clockrewrite SRC DST: copies a Go source file, replacing time.Now / time.Since /
// time.Until by their internal/verifhook equivalents (virtual clock). Used by the
// driver at every build on the CURRENT /repo source of the files listed under
// "vclock" in an area.json, and mapped in through the build overlay (DESIGN 2.3).
package main

import (
	"bytes"
	"fmt"
	"go/ast"
	"go/format"
	"go/parser"
	"go/token"
	"os"
	"sort"
	"strconv"
)

const hookPath = "github.com/basekick-labs/arc/internal/verifhook"

func main() {
	if len(os.Args) != 3 {
		fmt.Fprintln(os.Stderr, "usage: clockrewrite SRC DST")
		os.Exit(2)
	}
	fset := token.NewFileSet()
	f, err := parser.ParseFile(fset, os.Args[1], nil, parser.ParseComments)
	if err != nil {
		fmt.Fprintln(os.Stderr, err)
		os.Exit(1)
	}
	timeName := ""
	for _, im := range f.Imports {
		p, _ := strconv.Unquote(im.Path.Value)
		if p == "time" {
			timeName = "time"
			if im.Name != nil {
				timeName = im.Name.Name
			}
		}
	}
	src, err := os.ReadFile(os.Args[1])
	if err != nil {
		fmt.Fprintln(os.Stderr, err)
		os.Exit(1)
	}
	// textual patching at the identifier offsets keeps comments where they are
	type edit struct{ off, end int }
	var edits []edit
	if timeName != "" && timeName != "_" && timeName != "." {
		ast.Inspect(f, func(nd ast.Node) bool {
			sel, ok := nd.(*ast.SelectorExpr)
			if !ok {
				return true
			}
			id, ok := sel.X.(*ast.Ident)
			if !ok || id.Name != timeName || id.Obj != nil {
				return true
			}
			switch sel.Sel.Name {
			case "Now", "Since", "Until":
				edits = append(edits, edit{fset.Position(id.Pos()).Offset, fset.Position(id.End()).Offset})
			}
			return true
		})
	}
	var buf bytes.Buffer
	if len(edits) == 0 {
		buf.Write(src)
	} else {
		sort.Slice(edits, func(i, j int) bool { return edits[i].off < edits[j].off })
		pkgEnd := fset.Position(f.Name.End()).Offset
		buf.Write(src[:pkgEnd])
		fmt.Fprintf(&buf, "\n\nimport verifhook_vclock %q\n", hookPath)
		last := pkgEnd
		for _, e := range edits {
			buf.Write(src[last:e.off])
			buf.WriteString("verifhook_vclock")
			last = e.end
		}
		buf.Write(src[last:])
		fmt.Fprintf(&buf, "\nvar _ = %s.Second // keep the import used after the clock rewrite (%d call sites)\n", timeName, len(edits))
	}
	out, err := format.Source(buf.Bytes())
	if err != nil {
		fmt.Fprintln(os.Stderr, "format:", err)
		os.Exit(1)
	}
	if err := os.WriteFile(os.Args[2], out, 0o644); err != nil {
		fmt.Fprintln(os.Stderr, err)
		os.Exit(1)
	}
}
