module clockrewrite

go 1.26
