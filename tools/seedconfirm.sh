#!/bin/bash
# usage: tools/seedconfirm.sh <seed dir with patch.diff+demo_test.go> <package dir> <demo file name> <test regex> [tags]
# Confirms in a scratch worktree: demo passes without the patch, patch applies + builds, demo fails with it,
# the package's existing tests still pass with it.
set -u
. /verif/lib/env.sh
src="$1"; pkg="$2"; fname="$3"; rx="$4"; tags="${5:-}"
wt=/tmp/wt-confirm-$$
git -C /repo worktree add --detach $wt HEAD -q || exit 9
cd $wt
cp "$src/demo_test.go" "$pkg/$fname"
T=""; [ -n "$tags" ] && T="-tags $tags"
echo "== demo WITHOUT patch (expect pass)"; $GO test $T -vet=off -count=1 -run "$rx" ./$pkg/ 2>&1 | tail -2
git apply "$src/patch.diff" || { echo "PATCH DOES NOT APPLY"; cd /; git -C /repo worktree remove --force $wt; exit 8; }
echo "== build with patch"; $GO build ./... 2>&1 | tail -3 && echo build-ok
echo "== demo WITH patch (expect FAIL)"; $GO test $T -vet=off -count=1 -run "$rx" ./$pkg/ 2>&1 | tail -3
rm "$pkg/$fname"
echo "== existing tests of $pkg with patch (expect ok)"; $GO test $T -vet=off -count=1 ./$pkg/ 2>&1 | tail -2
cd /; git -C /repo worktree remove --force $wt
