#!/usr/bin/env python3
"""Prints the markdown table of seeded changes (DESIGN.md section B) from seeded/*/meta.json."""
import json, glob, os
rows = []
for f in sorted(glob.glob('/verif/seeded/*/meta.json')):
    d = json.load(open(f)); pid = os.path.basename(os.path.dirname(f))
    cr = d.get('check_result', {})
    rows.append((pid, d.get('summary', '')[:230].replace('|', '/').replace('\n', ' '), cr.get('status', '?'), cr.get('how', '')[:330].replace('|', '/').replace('\n', ' ')))
print('| prop | seeded change | result | how |\n|---|---|---|---|')
for r in rows:
    print('| %s | %s | %s | %s |' % r)
