#!/usr/bin/env python3
"""Lead-only helper (NOT used by any check): after triage, append the signatures of the
replay files of <ID> at the given seed that are not yet listed to known_findings.jsonl.
usage: addknown.py <ID> <seed> <notes-file> <prefix text>"""
import json, glob, sys
pid, seed, notes, prefix = sys.argv[1], sys.argv[2], sys.argv[3], sys.argv[4]
have = set()
for l in open('/verif/known_findings.jsonl'):
    l = l.strip()
    if l and not l.startswith('#'):
        d = json.loads(l)
        if d['property'] == pid:
            have.add(d['signature'])
n = 0
with open('/verif/known_findings.jsonl', 'a') as out:
    for f in sorted(glob.glob(f'/verif/replays/{pid}/*-seed{seed}.json')):
        d = json.load(open(f))
        if d['signature'] in have:
            continue
        det = d['detail'] if isinstance(d['detail'], dict) else {}
        mini = None
        for k in ('minimal_sql', 'minimal', 'min_sql', 'sql', 'minimal_request', 'query'):
            if k in det:
                mini = det[k]
                break
        what = prefix
        if mini is not None:
            what += '; minimal input: ' + (mini if isinstance(mini, str) else json.dumps(mini))[:300]
        what += f' (replay: replays/{pid}/{f.split("/")[-1]}; analysis: {notes})'
        out.write(json.dumps({"property": pid, "status": "known", "signature": d['signature'], "what": what}) + '\n')
        have.add(d['signature'])
        n += 1
print('added', n)
