#!/bin/bash
# like seed2proc.sh but runs the check against the scratch worktree /tmp/wt-seed (VERIF_REPO) instead of /repo
id="$1"; pkg="$2"; rx="$3"; tags="${4:-}"
src=/tmp/seed2-out/$id
[ -f $src/patch.diff ] && [ -f $src/demo_test.go ] && [ -f $src/meta.json ] || { echo "incomplete delivery $src"; ls $src; exit 7; }
/verif/tools/seedconfirm.sh $src $pkg seed2_${id}_demo_test.go "$rx" $tags 2>&1 | tail -14
mkdir -p /verif/seeded/$id-r2 && cp $src/patch.diff $src/demo_test.go $src/meta.json /verif/seeded/$id-r2/
git -C /tmp/wt-seed checkout -- . ; git -C /tmp/wt-seed apply $src/patch.diff || exit 8
out=$(cd /verif && VERIF_REPO=/tmp/wt-seed ./check $id quick 2>&1); rc=$?
echo "$id rc=$rc $(echo "$out" | grep -E '^SUMMARY' | cut -c1-160)"
echo "$out" | grep -E "signature:|BROKEN|BUILD-FAILED" | head -6 | sed 's/^/    /'
git -C /tmp/wt-seed checkout -- .
