#!/bin/bash
# usage: tools/seed3proc.sh <worktree> <ID> <pkgdir> <test regex> [tags]
# confirm a round-3 delivery, keep it under seeded/<ID>-r3, run the quick check against <worktree> with the patch applied
wt="$1"; id="$2"; pkg="$3"; rx="$4"; tags="${5:-}"
src=/tmp/seed3-out/$id
[ -f $src/patch.diff ] && [ -f $src/demo_test.go ] && [ -f $src/meta.json ] || { echo "incomplete delivery $src"; ls $src; exit 7; }
/verif/tools/seedconfirm.sh $src $pkg seed3_${id}_demo_test.go "$rx" $tags 2>&1 | tail -14
mkdir -p /verif/seeded/$id-r3 && cp $src/patch.diff $src/demo_test.go $src/meta.json /verif/seeded/$id-r3/
git -C $wt checkout -q --detach main; git -C $wt checkout -- . ; git -C $wt apply $src/patch.diff || exit 8
out=$(cd /verif && VERIF_REPO=$wt ./check $id quick 2>&1); rc=$?
echo "$id rc=$rc $(echo "$out" | grep -E '^SUMMARY' | cut -c1-160)"
echo "$out" | grep -E "signature:|BROKEN|BUILD-FAILED" | head -6 | sed 's/^/    /'
git -C $wt checkout -- .
