#!/usr/bin/env python3
"""Rewrites the seeded-changes table of DESIGN.md section B from seeded/*/meta.json (tools/seedtable.py)."""
import subprocess, re
tab = subprocess.check_output(['python3', '/verif/tools/seedtable.py']).decode()
s = open('/verif/DESIGN.md').read()
a = s.index('| prop | seeded change | result | how |')
b = s.index('## 0. Why this can reach')
s = s[:a] + tab.rstrip('\n') + '\n\n' + s[b:]
open('/verif/DESIGN.md', 'w').write(s)
print('rows', tab.count('\n') - 2)
